// symgo: symbolic execution of go/ssa harnesses with an SMT solver.
package main

import (
	"encoding/json"
	"flag"
	"fmt"
	"os"
	"path/filepath"
	"regexp"
	"runtime/pprof"
	"sort"
	"strings"
	"time"

	"golang.org/x/tools/go/packages"
	"golang.org/x/tools/go/ssa"
	"golang.org/x/tools/go/ssa/ssautil"

	"symgo/symgo"
)

type Output struct {
	Package   string                 `json:"package"`
	Tier      string                 `json:"tier"`
	LoadS     float64                `json:"load_s"`
	Results   []*symgo.HarnessResult `json:"results"`
	Skipped   []string               `json:"skipped_harness_files,omitempty"`
	Functions map[string]int64       `json:"functions_encoded"`
	InitNotes []string               `json:"init_notes,omitempty"`
	Solver    string                 `json:"solver"`
}

func main() {
	dir := flag.String("dir", "/repo", "module directory")
	pkgPat := flag.String("pkg", ".", "package pattern (relative to dir) the harness joins")
	hdir := flag.String("harness", "", "directory with harness files to overlay into the package")
	apiSrc := flag.String("api", "/verif/harness/api", "directory with the harness API package sources")
	apiDir := flag.String("apidir", "/repo/internal/verif", "virtual directory for the API package")
	run := flag.String("run", "^Verif", "regexp of harness function names")
	out := flag.String("out", "", "write JSON result here")
	tier := flag.String("tier", "quick", "quick|thorough")
	solver := flag.String("solver", "z3", "z3|z3-new|cvc5")
	timeout := flag.Int("timeout", 60000, "solver timeout per query (ms)")
	maxDec := flag.Int("maxdec", 4000, "max decisions per path")
	maxSteps := flag.Int64("maxsteps", 50_000_000, "max SSA instructions per path")
	maxPaths := flag.Int("maxpaths", 200000, "max paths per harness")
	maxConc := flag.Int("maxconc", 40, "max concretisation values per site per path")
	trace := flag.Bool("trace", false, "trace instructions")
	maxWall := flag.Float64("maxwall", 0, "wall-clock budget per harness in seconds (0 = none); exceeding it is reported as a bound hit")
	extra := flag.String("extra", "", "comma separated extra overlay mappings virtual=real")
	modelFile := flag.String("model", "", "concrete replay: JSON file with {harness, model}; runs that harness once under the assignment")
	cpuprof := flag.String("cpuprofile", "", "write CPU profile")
	flag.Parse()
	if *cpuprof != "" {
		f, _ := os.Create(*cpuprof)
		pprof.StartCPUProfile(f)
		defer pprof.StopCPUProfile()
	}

	os.Setenv("PATH", "/opt/veriftools/go1.26.8/bin:"+os.Getenv("PATH"))
	os.Setenv("GOTOOLCHAIN", "local")
	os.Setenv("GOFLAGS", "-mod=mod")
	os.Setenv("GOPROXY", "off")
	start := time.Now()
	overlay := map[string][]byte{}
	apiFiles, _ := filepath.Glob(filepath.Join(*apiSrc, "*.go"))
	if len(apiFiles) == 0 {
		fatal(fmt.Errorf("no API sources in %s", *apiSrc))
	}
	for _, f := range apiFiles {
		b, err := os.ReadFile(f)
		if err != nil {
			fatal(err)
		}
		overlay[filepath.Join(*apiDir, filepath.Base(f))] = b
	}
	absPkgDir := filepath.Join(*dir, *pkgPat)
	var skipped []string
	if *hdir != "" {
		files, _ := filepath.Glob(filepath.Join(*hdir, "*.go"))
		sort.Strings(files)
		for _, f := range files {
			b, err := os.ReadFile(f)
			if err != nil {
				fatal(err)
			}
			overlay[filepath.Join(absPkgDir, "zz_verif_"+filepath.Base(f))] = b
		}
	}
	if *extra != "" {
		for _, kv := range strings.Split(*extra, ",") {
			p := strings.SplitN(kv, "=", 2)
			b, err := os.ReadFile(p[1])
			if err != nil {
				fatal(err)
			}
			overlay[p[0]] = b
		}
	}
	cfg := &packages.Config{
		Mode:       packages.LoadAllSyntax,
		Dir:        *dir,
		Overlay:    overlay,
		BuildFlags: []string{"-tags=verif"},
		Env:        append(os.Environ(), "PATH=/opt/veriftools/go1.26.8/bin:"+os.Getenv("PATH"), "GOFLAGS=-mod=mod", "GOPROXY=off", "GOSUMDB=off", "GOTOOLCHAIN=local", "CGO_ENABLED=0"),
	}
	pkgs, err := packages.Load(cfg, "./"+*pkgPat)
	if err != nil {
		fatal(err)
	}
	// A harness file that no longer type-checks is dropped (and listed), the rest runs.
	for attempt := 0; attempt < 8; attempt++ {
		bad := map[string]bool{}
		packages.Visit(pkgs, nil, func(p *packages.Package) {
			for _, e := range p.Errors {
				pos := e.Pos
				if i := strings.Index(pos, ":"); i > 0 {
					pos = pos[:i]
				}
				if strings.Contains(filepath.Base(pos), "zz_verif_") {
					bad[pos] = true
				} else {
					fmt.Fprintf(os.Stderr, "load error: %v\n", e)
				}
			}
		})
		if len(bad) == 0 {
			break
		}
		for f := range bad {
			fmt.Fprintf(os.Stderr, "harness file skipped (does not type-check against the current tree): %s\n", f)
			skipped = append(skipped, filepath.Base(f))
			delete(overlay, f)
		}
		pkgs, err = packages.Load(cfg, "./"+*pkgPat)
		if err != nil {
			fatal(err)
		}
	}
	if packages.PrintErrors(pkgs) > 0 {
		fmt.Fprintln(os.Stderr, "INCONCLUSIVE: package does not load")
		os.Exit(2)
	}
	prog, spkgs := ssautil.AllPackages(pkgs, ssa.InstantiateGenerics)
	prog.Build()
	loadS := time.Since(start).Seconds()

	var target *ssa.Package
	for _, p := range spkgs {
		if p != nil {
			target = p
			break
		}
	}
	if target == nil {
		fatal(fmt.Errorf("no package"))
	}
	re := regexp.MustCompile(*run)
	var harnesses []*ssa.Function
	for name, mem := range target.Members {
		if fn, ok := mem.(*ssa.Function); ok && strings.HasPrefix(name, "Verif") && re.MatchString(name) {
			harnesses = append(harnesses, fn)
		}
	}
	sort.Slice(harnesses, func(i, j int) bool { return harnesses[i].Name() < harnesses[j].Name() })

	repoPrefix := "github.com/fido-device-onboard/go-fdo"
	mcfg := symgo.Config{MaxDecisions: *maxDec, MaxSteps: *maxSteps, MaxCallDepth: 400, MaxConcretize: *maxConc,
		SolverTimeout: *timeout, SolverKind: *solver, Trace: *trace, RepoPrefix: repoPrefix, MaxPaths: *maxPaths, MaxWall: *maxWall}
	m := symgo.NewMachine(prog, mcfg)
	m.InstallModels()
	harnessModels := m.InstallHarnessModels(target)
	sort.Strings(harnessModels)
	m.Tier = 0
	if *tier == "thorough" {
		m.Tier = 1
	}
	s, err := symgo.NewSolver(*solver, *timeout)
	if err != nil {
		fatal(err)
	}
	defer s.Close()
	m.S = s
	if *modelFile != "" {
		b, err := os.ReadFile(*modelFile)
		if err != nil {
			fatal(err)
		}
		var doc struct {
			Harness string            `json:"harness"`
			Class   string            `json:"class"`
			Model   map[string]string `json:"model"`
		}
		if err := json.Unmarshal(b, &doc); err != nil {
			fatal(err)
		}
		for _, h := range harnesses {
			if h.Name() != doc.Harness {
				continue
			}
			got := m.NewExplorer(h).RunConcrete(doc.Model)
			fmt.Printf("CONCRETE-REPLAY harness=%s classes=%q\n", h.Name(), got)
			for _, c := range got {
				if c == doc.Class {
					fmt.Println("REPRODUCED")
					os.Exit(1)
				}
			}
			fmt.Println("NOT-REPRODUCED")
			os.Exit(0)
		}
		fatal(fmt.Errorf("harness %s not found", doc.Harness))
	}
	o := &Output{Package: target.Pkg.Path(), Tier: *tier, LoadS: loadS, Skipped: skipped, Solver: *solver}
	for _, h := range harnesses {
		x := m.NewExplorer(h)
		r := x.Run()
		o.Results = append(o.Results, r)
		status := "ok"
		if len(r.Violations) > 0 {
			status = fmt.Sprintf("VIOLATIONS=%d", len(r.Violations))
		}
		if len(r.Unsupported)+len(r.EngineBugs)+len(r.BoundHits)+len(r.Inconclusive) > 0 {
			status += " INCONCLUSIVE"
		}
		fmt.Printf("%-50s paths=%d completed=%d panicked=%d oblig=%d/%d queries=%d solver=%.2fs wall=%.2fs %s\n", h.Name(), r.Paths, r.Completed, r.PanickedPaths,
			r.Discharged, r.Obligations, r.Queries, r.SolverTime, r.Wall, status)
		if os.Getenv("SYMGO_TIMING") != "" {
			fmt.Printf("   timing: value=%.2fs send=%.2fs check=%.2fs\n", s.ValueTime.Seconds(), s.SendTime.Seconds(), s.Time.Seconds())
		}
		for _, u := range r.Unsupported {
			fmt.Println("   unsupported:", u)
		}
		for _, u := range r.EngineBugs {
			fmt.Println("   engine bug:", u)
		}
		for _, u := range r.BoundHits {
			fmt.Println("   bound:", u)
		}
		for _, u := range r.Inconclusive {
			fmt.Println("   inconclusive:", u)
		}
		for _, v := range r.Violations {
			fmt.Printf("   violation class=%q kind=%s site=%s confirmed=%v detail=%q\n", v.Class, v.Kind, v.Site, v.Confirmed, v.Detail)
		}
	}
	o.Functions = m.FunctionsExecuted()
	o.InitNotes = m.InitNotes
	for _, hm := range harnessModels {
		o.InitNotes = append(o.InitNotes, "harness model replaces repository function: "+hm)
	}
	if *out != "" {
		b, _ := json.MarshalIndent(o, "", " ")
		if err := os.WriteFile(*out, b, 0o644); err != nil {
			fatal(err)
		}
	}
}

func fatal(err error) {
	fmt.Fprintln(os.Stderr, "symgo:", err)
	os.Exit(2)
}
