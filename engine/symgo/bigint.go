package symgo

// Native model of math/big.Int as a natural number held in a bit-vector of
// 8*n bits (n = byte length), plus a sign flag. Exact for SetBytes, FillBytes,
// Bytes, Cmp, Sub, Add, BitLen (concrete), Sign; Exp is an oracle.

import (
	"fmt"
	"math/big"
)

type BigInt struct {
	T   *Term // nil: zero
	Neg bool
}

func bigFromConcrete(v *big.Int) BigInt {
	if v.Sign() == 0 {
		return BigInt{}
	}
	b := new(big.Int).Abs(v).Bytes()
	ts := make([]*Term, len(b))
	for i, x := range b {
		ts[i] = Const(8, uint64(x))
	}
	return BigInt{T: catBytes(ts), Neg: v.Sign() < 0}
}

func catBytes(b []*Term) *Term {
	if len(b) == 0 {
		return nil
	}
	r := b[0]
	for _, x := range b[1:] {
		r = Concat(r, x)
	}
	return r
}

func (b BigInt) width() int {
	if b.T == nil {
		return 0
	}
	return b.T.W
}

func (b BigInt) ext(w int) *Term {
	if w == 0 {
		w = 8
	}
	if b.T == nil {
		return mkZero(w)
	}
	return ZExt(b.T, w)
}

func (b BigInt) concrete() (*big.Int, bool) {
	if b.T == nil {
		return big.NewInt(0), true
	}
	if !isConstAny(b.T) {
		return nil, false
	}
	v := new(big.Int).Set(constBig(b.T))
	if b.Neg {
		v.Neg(v)
	}
	return v, true
}

func maxInt(a, b int) int {
	if a > b {
		return a
	}
	return b
}

func bigEq(x, y BigInt) *Term {
	w := maxInt(maxInt(x.width(), y.width()), 8)
	return And(Eq(x.ext(w), y.ext(w)), Bool(x.Neg == y.Neg))
}

// byteAt returns byte i (0 = most significant) of a w-bit term.
func byteAt(t *Term, i int) *Term {
	hi := t.W - 1 - 8*i
	return Extract(t, hi, hi-7)
}

func (m *Machine) bigPtr(v Value) *Value {
	p := v.(*Value)
	return p
}

func (m *Machine) bigGet(fr *Frame, v Value) BigInt {
	p := v.(*Value)
	if p == nil {
		m.runtimePanic(fr, "nil dereference", "invalid memory address or nil pointer dereference")
	}
	b, ok := (*p).(BigInt)
	if !ok {
		panic(engineBug{fmt.Sprintf("big.Int cell holds %T", *p)})
	}
	return b
}

func registerBig(m *Machine) {
	N := m.natives
	set := func(m *Machine, fr *Frame, recv Value, b BigInt) Value {
		p := recv.(*Value)
		if p == nil {
			m.runtimePanic(fr, "nil dereference", "invalid memory address or nil pointer dereference")
		}
		m.store(p, b)
		return recv
	}
	N["math/big.NewInt"] = func(m *Machine, fr *Frame, a []Value) Value {
		t := a[0].(*Term)
		cell := new(Value)
		if t.IsConst() {
			*cell = bigFromConcrete(big.NewInt(int64(t.Val)))
		} else {
			neg := m.Branch(Slt(t, Const(64, 0)))
			if neg {
				*cell = BigInt{T: Neg(t), Neg: true}
			} else {
				*cell = BigInt{T: t}
			}
		}
		return cell
	}
	N["(*math/big.Int).SetBytes"] = func(m *Machine, fr *Frame, a []Value) Value {
		return set(m, fr, a[0], BigInt{T: catBytes(bytesOf(a[1].(Slice)))})
	}
	N["(*math/big.Int).SetInt64"] = func(m *Machine, fr *Frame, a []Value) Value {
		t := a[1].(*Term)
		if t.IsConst() {
			return set(m, fr, a[0], bigFromConcrete(big.NewInt(int64(t.Val))))
		}
		if m.Branch(Slt(t, Const(64, 0))) {
			return set(m, fr, a[0], BigInt{T: Neg(t), Neg: true})
		}
		return set(m, fr, a[0], BigInt{T: t})
	}
	N["(*math/big.Int).SetUint64"] = func(m *Machine, fr *Frame, a []Value) Value {
		return set(m, fr, a[0], BigInt{T: a[1].(*Term)})
	}
	N["(*math/big.Int).Set"] = func(m *Machine, fr *Frame, a []Value) Value {
		return set(m, fr, a[0], m.bigGet(fr, a[1]))
	}
	N["(*math/big.Int).SetString"] = func(m *Machine, fr *Frame, a []Value) Value {
		s, ok := a[1].(string)
		if !ok {
			unsupported("big.Int.SetString on symbolic string")
		}
		v, ok := new(big.Int).SetString(s, int(m.concInt(a[2].(*Term), "base")))
		if !ok {
			return Tuple{(*Value)(nil), FalseT}
		}
		set(m, fr, a[0], bigFromConcrete(v))
		return Tuple{a[0], TrueT}
	}
	N["(*math/big.Int).Bytes"] = func(m *Machine, fr *Frame, a []Value) Value {
		b := m.bigGet(fr, a[0])
		n := b.width() / 8
		i := 0
		for i < n {
			if !m.Branch(Eq(byteAt(b.T, i), Const(8, 0))) {
				break
			}
			i++
		}
		out := make([]Value, n-i)
		for k := i; k < n; k++ {
			out[k-i] = byteAt(b.T, k)
		}
		return Slice{A: out}
	}
	N["(*math/big.Int).FillBytes"] = func(m *Machine, fr *Frame, a []Value) Value {
		b := m.bigGet(fr, a[0])
		buf := a[1].(Slice)
		n := b.width() / 8
		L := len(buf.A)
		// bytes beyond the buffer must be zero
		for i := 0; i < n-L; i++ {
			if !m.Branch(Eq(byteAt(b.T, i), Const(8, 0))) {
				m.goPanic(fr, "big: buffer too small", "math/big: buffer too small to fit value")
			}
		}
		for k := 0; k < L; k++ {
			// buf[k] = byte (L-1-k) from the least significant end
			pos := L - 1 - k // index from LSB
			var v *Term
			if pos < n {
				v = byteAt(b.T, n-1-pos)
			} else {
				v = Const(8, 0)
			}
			m.store(&buf.A[k], v)
		}
		return buf
	}
	N["(*math/big.Int).Cmp"] = func(m *Machine, fr *Frame, a []Value) Value {
		x, y := m.bigGet(fr, a[0]), m.bigGet(fr, a[1])
		if x.Neg || y.Neg {
			xc, ok1 := x.concrete()
			yc, ok2 := y.concrete()
			if !ok1 || !ok2 {
				unsupported("big.Int.Cmp on symbolic negative values")
			}
			return Const(64, uint64(int64(xc.Cmp(yc))))
		}
		w := maxInt(maxInt(x.width(), y.width()), 8)
		xe, ye := x.ext(w), y.ext(w)
		return Ite(Eq(xe, ye), Const(64, 0), Ite(Ult(xe, ye), Const(64, ^uint64(0)), Const(64, 1)))
	}
	N["(*math/big.Int).Sign"] = func(m *Machine, fr *Frame, a []Value) Value {
		x := m.bigGet(fr, a[0])
		if x.T == nil {
			return Const(64, 0)
		}
		z := Eq(x.T, mkZero(x.T.W))
		s := Const(64, 1)
		if x.Neg {
			s = Const(64, ^uint64(0))
		}
		return Ite(z, Const(64, 0), s)
	}
	arith := func(op Op) NativeFunc {
		return func(m *Machine, fr *Frame, a []Value) Value {
			x, y := m.bigGet(fr, a[1]), m.bigGet(fr, a[2])
			if x.Neg || y.Neg {
				xc, ok1 := x.concrete()
				yc, ok2 := y.concrete()
				if !ok1 || !ok2 {
					unsupported("big.Int arithmetic on symbolic negative values")
				}
				r := new(big.Int)
				if op == OpAdd {
					r.Add(xc, yc)
				} else {
					r.Sub(xc, yc)
				}
				return set(m, fr, a[0], bigFromConcrete(r))
			}
			w := maxInt(maxInt(x.width(), y.width()), 8) + 8
			xe, ye := x.ext(w), y.ext(w)
			if op == OpAdd {
				return set(m, fr, a[0], BigInt{T: BinBV(OpAdd, xe, ye)})
			}
			if m.Branch(Ult(xe, ye)) {
				return set(m, fr, a[0], BigInt{T: BinBV(OpSub, ye, xe), Neg: true})
			}
			return set(m, fr, a[0], BigInt{T: BinBV(OpSub, xe, ye)})
		}
	}
	N["(*math/big.Int).Add"] = arith(OpAdd)
	N["(*math/big.Int).Sub"] = arith(OpSub)
	N["(*math/big.Int).BitLen"] = func(m *Machine, fr *Frame, a []Value) Value {
		x := m.bigGet(fr, a[0])
		if c, ok := x.concrete(); ok {
			return Const(64, uint64(c.BitLen()))
		}
		// symbolic: fork on leading zero bytes, then on the top byte's leading bits
		n := x.width() / 8
		for i := 0; i < n; i++ {
			b := byteAt(x.T, i)
			if m.Branch(Eq(b, Const(8, 0))) {
				continue
			}
			for bit := 7; bit >= 0; bit-- {
				if m.Branch(Eq(Extract(b, bit, bit), Const(1, 1))) {
					return Const(64, uint64(8*(n-1-i)+bit+1))
				}
			}
		}
		return Const(64, 0)
	}
	N["(*math/big.Int).Exp"] = func(m *Machine, fr *Frame, a []Value) Value {
		x, y, mod := m.bigGet(fr, a[1]), m.bigGet(fr, a[2]), m.bigGet(fr, a[3])
		if m.P == nil {
			// outside a path (package initialisation): concrete arithmetic
			xc, ok1 := x.concrete()
			yc, ok2 := y.concrete()
			mc, ok3 := mod.concrete()
			if ok1 && ok2 && ok3 && mc.Sign() > 0 {
				return set(m, fr, a[0], bigFromConcrete(new(big.Int).Exp(xc, yc, mc)))
			}
			unsupported("big.Int.Exp during initialisation")
		}
		w := maxInt(mod.width(), 8)
		toBytes := func(b BigInt, w int) []*Term {
			t := b.ext(w)
			r := make([]*Term, w/8)
			for i := range r {
				r[i] = byteAt(t, i)
			}
			return r
		}
		xb, yb, mb := toBytes(x, maxInt(maxInt(x.width(), w), 8)), toBytes(y, maxInt(maxInt(y.width(), w), 8)), toBytes(mod, w)
		out := m.Oracle("modexp", w/8, false, [][]*Term{xb, yb, mb})
		res := BigInt{T: catBytes(out)}
		if m.P != nil && m.P.concrete == nil && mod.T != nil {
			m.addPC(Ult(res.T, mod.ext(w)))
			if g := m.P.ghost["exp-nondegenerate"]; g != nil {
				// honest exponentiation results lie in [2, mod-2] (degenerate results have negligible probability)
				two := ZExt(Const(8, 2), w)
				m.addPC(And(Ule(two, res.T), Ule(res.T, BinBV(OpSub, mod.ext(w), two))))
			}
			if g := m.P.ghost["exp-leading-zero-bytes"]; g != nil {
				// bound the number of leading zero bytes of exponentiation results (stated in the harness bounds)
				k := int(m.concInt(g.(Iface).V.(*Term), "ghost"))
				nz := FalseT
				for i := 0; i <= k && i < len(out); i++ {
					nz = Or(nz, Not(Eq(out[i], Const(8, 0))))
				}
				m.addPC(nz)
			}
			// (g^a)^b = (g^b)^a : for every two applications P = X^b, Q = Y^a with
			// X = g^a' and Y = g^b' logged, a=a', b=b' => P = Q
			app := expApp{x: xb, y: yb, m: mb, out: out}
			for _, q := range m.P.exps {
				m.expCommute(app, q)
				m.expCommute(q, app)
			}
			m.P.exps = append(m.P.exps, app)
		}
		return set(m, fr, a[0], res)
	}
	bigIntEqual := func(m *Machine, fr *Frame, a []Value) Value {
		x, y := m.bigGet(fr, a[0]), m.bigGet(fr, a[1])
		return bigEq(x, y)
	}
	N["crypto/ecdsa.bigIntEqual"] = bigIntEqual
	N["crypto/rsa.bigIntEqual"] = bigIntEqual
	N["(*math/big.Int).String"] = func(m *Machine, fr *Frame, a []Value) Value {
		p := a[0].(*Value)
		if p == nil {
			return "<nil>"
		}
		if c, ok := m.bigGet(fr, a[0]).concrete(); ok {
			return c.String()
		}
		return "<symbolic big.Int>"
	}
	N["(*math/big.Int).IsInt64"] = func(m *Machine, fr *Frame, a []Value) Value {
		x := m.bigGet(fr, a[0])
		if c, ok := x.concrete(); ok {
			return Bool(c.IsInt64())
		}
		unsupported("big.Int.IsInt64 symbolic")
		return nil
	}
	N["(*math/big.Int).Int64"] = func(m *Machine, fr *Frame, a []Value) Value {
		x := m.bigGet(fr, a[0])
		if c, ok := x.concrete(); ok {
			return Const(64, uint64(c.Int64()))
		}
		return Resize(x.ext(maxInt(x.width(), 64)), 64, false)
	}
	N["(*math/big.Int).Uint64"] = N["(*math/big.Int).Int64"]
}

type expApp struct{ x, y, m, out []*Term }

// expCommute adds: for inner apps I = (g, a, m)->i and J = (g, b, m)->j with
// p.x == i, p.y == b, q.x == j, q.y == a  =>  p.out == q.out.
func (m *Machine) expCommute(p, q expApp) {
	if len(p.m) != len(q.m) {
		return
	}
	for _, I := range m.P.exps {
		for _, J := range m.P.exps {
			if len(I.m) != len(p.m) || len(J.m) != len(p.m) || len(I.x) != len(J.x) {
				continue
			}
			cond := And(bytesEqTerm(I.x, J.x), And(bytesEqTerm(I.m, J.m), And(bytesEqTerm(I.m, p.m), bytesEqTerm(p.m, q.m))))
			cond = And(cond, eqPad(p.x, I.out))
			cond = And(cond, eqPad(q.x, J.out))
			cond = And(cond, eqPad(p.y, J.y))
			cond = And(cond, eqPad(q.y, I.y))
			if cond.IsFalse() {
				continue
			}
			m.addPC(Implies(cond, bytesEqTerm(p.out, q.out)))
		}
	}
}

// eqPad compares two big-endian byte strings as numbers (left-padding the shorter).
func eqPad(a, b []*Term) *Term {
	for len(a) < len(b) {
		a = append([]*Term{Const(8, 0)}, a...)
	}
	for len(b) < len(a) {
		b = append([]*Term{Const(8, 0)}, b...)
	}
	return bytesEqTerm(a, b)
}
