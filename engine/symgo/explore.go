package symgo

import (
	"fmt"
	"go/token"
	"math/big"
	"os"
	"sort"
	"strings"
	"time"

	"golang.org/x/tools/go/ssa"
)

type Decision struct {
	Taken  bool
	Forced bool   // the other side was infeasible when first explored
	Conc   bool   // concretisation decision: Taken means term == Val
	Val    uint64 // for Conc
}

type Input struct {
	Name string
	T    *Term
	Kind string // "input", "rand", "oracle", "clock", ...
}

type oracleApp struct {
	name string
	key  string
	args [][]*Term
	out  []*Term // bytes (W=8) or single bool
	inj  bool
}

type Violation struct {
	Harness string            `json:"harness"`
	Class   string            `json:"class"` // label or panic:<kind>@<func>
	Label   string            `json:"label"`
	Kind    string            `json:"kind"` // "assert" | "panic"
	Site    string            `json:"site,omitempty"`
	Stack   []string          `json:"stack,omitempty"`
	Model   map[string]string `json:"model"` // input name -> hex value
	Widths  map[string]int    `json:"widths"`
	Detail  string            `json:"detail,omitempty"`
	PathLen int               `json:"path_len"`
	Confirmed bool            `json:"confirmed_concrete"`
	Notes   []string          `json:"notes,omitempty"`
}

type Path struct {
	prefix    []Decision
	decisions []Decision
	pc        []*Term
	inputs    []Input
	names     map[string]int
	oracles   []*oracleApp
	oracleMemo map[string]*oracleApp
	Reached   map[string]bool
	Recovered []string
	Observed  []string
	Notes     []string
	nopanic   bool
	allocBytes int64
	allocMax   int64
	concCount map[string]int
	concrete  map[string]*big.Int // concrete-replay assignment (nil in symbolic mode)
	ghost     map[string]Value
	clockLast *Term
	pcSet     map[*Term]bool
	oracleCalls int
	exps      []expApp
}

func (p *Path) replaying() bool { return len(p.decisions) < len(p.prefix) }

type HarnessResult struct {
	Harness      string         `json:"harness"`
	Paths        int            `json:"paths"`
	Completed    int            `json:"completed_paths"`
	PanickedPaths int           `json:"paths_ended_by_panic"`
	AssumeCut    int            `json:"paths_cut_by_assume"`
	Decisions    int            `json:"branch_decisions"`
	Nodes        int            `json:"tree_nodes"`
	Obligations  int            `json:"obligations"`
	Discharged   int            `json:"discharged"`
	Inconclusive []string       `json:"inconclusive,omitempty"`
	Unsupported  []string       `json:"unsupported,omitempty"`
	BoundHits    []string       `json:"bound_hits,omitempty"`
	EngineBugs   []string       `json:"engine_bugs,omitempty"`
	Reached      map[string]int `json:"reached"`
	Violations   []*Violation   `json:"violations,omitempty"`
	Queries      int            `json:"solver_queries"`
	SolverTime   float64        `json:"solver_time_s"`
	Wall         float64        `json:"wall_s"`
	Assumptions  []string       `json:"assumptions,omitempty"`
	Bounds       map[string]string `json:"bounds,omitempty"`
	Samples      []string       `json:"samples,omitempty"`
	PanicKinds   map[string]int `json:"panic_kinds,omitempty"`
	MaxAlloc     int64          `json:"max_alloc_bytes"`
	Truncated    bool           `json:"truncated,omitempty"`
	Recovered    map[string]int `json:"recovered_panics,omitempty"`
}

var forkLog = os.Getenv("SYMGO_FORKLOG") != ""

type Explorer struct {
	forkSites map[string]int
	expect    map[string]bool
	m       *Machine
	fn      *ssa.Function
	work    [][]Decision
	R       *HarnessResult
	viol    map[string]*Violation
	assume  map[string]bool
	bounds  map[string]string
	pathsSinceRestart int
}

func (m *Machine) NewExplorer(fn *ssa.Function) *Explorer {
	x := &Explorer{m: m, fn: fn, viol: map[string]*Violation{}, assume: map[string]bool{}, bounds: map[string]string{}, forkSites: map[string]int{}, expect: map[string]bool{}}
	x.R = &HarnessResult{Harness: fn.Name(), Reached: map[string]int{}, PanicKinds: map[string]int{}, Recovered: map[string]int{}}
	return x
}

// Run explores all paths of the harness (DFS over decision prefixes).
func (x *Explorer) Run() *HarnessResult {
	m := x.m
	m.X = x
	start := time.Now()
	m.S.Restart()
	q0, t0, e0 := m.S.Queries, m.S.Time, m.S.Errors
	x.work = [][]Decision{nil}
	lastProgress := time.Now()
	for len(x.work) > 0 {
		if m.cfg.MaxPaths > 0 && x.R.Paths >= m.cfg.MaxPaths {
			x.R.Truncated = true
			x.R.BoundHits = append(x.R.BoundHits, fmt.Sprintf("path budget %d reached with %d prefixes pending", m.cfg.MaxPaths, len(x.work)))
			break
		}
		if m.cfg.MaxWall > 0 && time.Since(start).Seconds() > m.cfg.MaxWall {
			x.R.Truncated = true
			x.R.BoundHits = append(x.R.BoundHits, fmt.Sprintf("wall budget %.0fs reached after %d paths with %d prefixes pending", m.cfg.MaxWall, x.R.Paths, len(x.work)))
			break
		}
		if os.Getenv("SYMGO_PROGRESS") != "" && time.Since(lastProgress) > 10*time.Second {
			lastProgress = time.Now()
			fmt.Fprintf(os.Stderr, "[progress] %s: paths=%d pending=%d queries=%d solver=%.1fs elapsed=%.0fs\n", x.fn.Name(), x.R.Paths, len(x.work), m.S.Queries-q0, (m.S.Time - t0).Seconds(), time.Since(start).Seconds())
		}
		prefix := x.work[len(x.work)-1]
		x.work = x.work[:len(x.work)-1]
		x.runPath(prefix, nil)
	}
	if forkLog {
		type kv struct {
			k string
			v int
		}
		var l []kv
		for k, v := range x.forkSites {
			l = append(l, kv{k, v})
		}
		sort.Slice(l, func(i, j int) bool { return l[i].v > l[j].v })
		for i, e := range l {
			if i >= 12 {
				break
			}
			fmt.Fprintf(os.Stderr, "[forks] %6d  %s\n", e.v, e.k)
		}
	}
	x.R.Queries = m.S.Queries - q0
	x.R.SolverTime = (m.S.Time - t0).Seconds()
	x.R.Wall = time.Since(start).Seconds()
	for l := range x.expect {
		if x.R.Reached[l] == 0 && !x.R.Truncated {
			x.R.Inconclusive = appendUniq(x.R.Inconclusive, fmt.Sprintf("vacuous: expected label %q was never reached", l))
		}
	}
	if m.S.Errors > e0 {
		x.R.Inconclusive = appendUniq(x.R.Inconclusive, fmt.Sprintf("solver reported %d error lines", m.S.Errors-e0))
	}
	for _, v := range x.viol {
		x.R.Violations = append(x.R.Violations, v)
	}
	sort.Slice(x.R.Violations, func(i, j int) bool { return x.R.Violations[i].Class < x.R.Violations[j].Class })
	for a := range x.assume {
		x.R.Assumptions = append(x.R.Assumptions, a)
	}
	sort.Strings(x.R.Assumptions)
	x.R.Bounds = x.bounds
	// concrete confirmation of each violation
	for _, v := range x.R.Violations {
		x.confirm(v)
	}
	return x.R
}

// RunConcrete executes the harness once under a concrete assignment and returns
// the violation classes observed.
func (x *Explorer) RunConcrete(model map[string]string) []string {
	x.m.X = x
	x.m.S.Restart()
	env := map[string]*big.Int{}
	for k, hv := range model {
		b, _ := new(big.Int).SetString(hv, 16)
		env[k] = b
	}
	x.runPath(nil, env)
	var got []string
	for c := range x.viol {
		got = append(got, c)
	}
	sort.Strings(got)
	if len(x.R.EngineBugs)+len(x.R.Unsupported)+len(x.R.BoundHits) > 0 {
		fmt.Fprintf(os.Stderr, "concrete replay: engine bugs=%v unsupported=%v bounds=%v\n", x.R.EngineBugs, x.R.Unsupported, x.R.BoundHits)
	}
	return got
}

// confirm re-executes the harness concretely under the model and checks that the
// same class of violation is observed.
func (x *Explorer) confirm(v *Violation) {
	env := map[string]*big.Int{}
	for k, hv := range v.Model {
		b, _ := new(big.Int).SetString(hv, 16)
		env[k] = b
	}
	saved := x.viol
	x.viol = map[string]*Violation{}
	savedR := *x.R
	x.runPath(nil, env)
	if _, ok := x.viol[v.Class]; ok {
		v.Confirmed = true
	} else {
		var got []string
		for c := range x.viol {
			got = append(got, c)
		}
		v.Notes = append(v.Notes, fmt.Sprintf("concrete re-execution did not reproduce this class (saw %v; engine: bugs=%v unsupported=%v bounds=%v)", got, x.R.EngineBugs[len(savedR.EngineBugs):], x.R.Unsupported[len(savedR.Unsupported):], x.R.BoundHits[len(savedR.BoundHits):]))
	}
	x.viol = saved
	*x.R = savedR
}

func (x *Explorer) runPath(prefix []Decision, concrete map[string]*big.Int) {
	m := x.m
	x.pathsSinceRestart++
	if x.pathsSinceRestart > 400 {
		m.S.Restart()
		x.pathsSinceRestart = 0
	}
	m.S.Pop(m.S.level)
	m.S.Push()
	p := &Path{prefix: prefix, names: map[string]int{}, Reached: map[string]bool{}, concCount: map[string]int{},
		oracleMemo: map[string]*oracleApp{}, concrete: concrete, ghost: map[string]Value{}, pcSet: map[*Term]bool{}}
	m.P = p
	m.steps = 0
	m.depth = 0
	m.journalOn = true
	m.sched.reset()
	x.R.Paths++
	completed := false
	func() {
		defer func() {
			r := recover()
			m.sched.killAll()
			if r == nil {
				return
			}
			switch r := r.(type) {
			case pathEnd:
				if r.reason == "assume" {
					x.R.AssumeCut++
				}
			case boundHit:
				x.R.BoundHits = appendUniq(x.R.BoundHits, r.what)
			case Unsupported:
				x.R.Unsupported = appendUniq(x.R.Unsupported, r.Msg)
			case engineBug:
				x.R.EngineBugs = appendUniq(x.R.EngineBugs, r.msg)
			case harnessPanic:
				x.R.PanickedPaths++
				x.R.PanicKinds[r.p.Kind+" @ "+r.p.Site]++
				if p.nopanic {
					x.reportPanic(p, r.p)
				}
			case TargetPanic:
				x.R.PanickedPaths++
				x.R.PanicKinds[r.Kind+" @ "+r.Site]++
				if p.nopanic {
					x.reportPanic(p, r)
				}
			default:
				x.R.EngineBugs = appendUniq(x.R.EngineBugs, fmt.Sprintf("crash: %v", r))
				if os.Getenv("SYMGO_CRASH") != "" {
					panic(r)
				}
			}
		}()
		m.callSSA(nil, x.fn, nil, nil, token.NoPos)
		m.sched.drain()
		completed = true
	}()
	if completed {
		x.R.Completed++
	}
	for l := range p.Reached {
		x.R.Reached[l]++
	}
	for _, r := range p.Recovered {
		x.R.Recovered[r]++
	}
	if p.allocMax > x.R.MaxAlloc {
		x.R.MaxAlloc = p.allocMax
	}
	x.R.Decisions += len(p.decisions) - len(prefix)
	x.R.Nodes += len(p.decisions) - len(prefix) + 1
	if len(x.R.Samples) < 6 && concrete == nil {
		x.R.Samples = append(x.R.Samples, fmt.Sprintf("path %d: %d decisions, pc %d conjuncts, reached %v, observed %v", x.R.Paths, len(p.decisions), len(p.pc), keysOf(p.Reached), p.Observed))
	}
	m.rollback()
	m.journalOn = false
	m.P = nil
}

func keysOf(mp map[string]bool) []string {
	var k []string
	for s := range mp {
		k = append(k, s)
	}
	sort.Strings(k)
	return k
}

func appendUniq(l []string, s string) []string {
	for _, x := range l {
		if x == s {
			return l
		}
	}
	return append(l, s)
}

func (x *Explorer) reportPanic(p *Path, tp TargetPanic) {
	class := "panic:" + tp.Kind + "@" + tp.Site
	if _, ok := x.viol[class]; ok {
		return
	}
	m := x.m
	v := &Violation{Harness: x.fn.Name(), Class: class, Label: tp.Kind, Kind: "panic", Site: tp.Site, Stack: tp.Stack, PathLen: len(p.decisions)}
	if iv, ok := tp.V.(Iface); ok {
		if s, ok := iv.V.(string); ok {
			v.Detail = s
		} else {
			v.Detail = m.errorText(iv)
		}
	}
	if p.concrete != nil {
		v.Model = map[string]string{}
		x.viol[class] = v
		return
	}
	if r := m.S.Check(); r == Sat {
		v.Model, v.Widths = x.model(p)
		x.viol[class] = v
	} else {
		x.R.Inconclusive = appendUniq(x.R.Inconclusive, fmt.Sprintf("panic path %s: path condition %v", class, r))
	}
}

func (x *Explorer) model(p *Path) (map[string]string, map[string]int) {
	mod := map[string]string{}
	wd := map[string]int{}
	for _, in := range p.inputs {
		if v, ok := x.m.S.Value(in.T); ok {
			mod[in.Name] = v.Text(16)
			wd[in.Name] = in.T.W
		}
	}
	return mod, wd
}

// ---------- path operations used by the interpreter ----------

func (m *Machine) addPC(c *Term) {
	if c.IsTrue() {
		return
	}
	m.P.pc = append(m.P.pc, c)
	m.P.pcSet[c] = true
	if m.P.concrete == nil {
		m.S.Assert(c)
	}
}

func (m *Machine) feasible(c *Term) SatResult {
	if c.IsTrue() {
		return Sat
	}
	if c.IsFalse() {
		return Unsat
	}
	m.S.Push()
	m.S.Assert(c)
	r := m.S.Check()
	m.S.Pop(1)
	return r
}

// Branch decides a symbolic condition, forking the exploration.
func (m *Machine) Branch(c *Term) bool {
	if c.IsConst() {
		return c.Val == 1
	}
	p := m.P
	if p == nil {
		if m.initMode {
			unsupported("symbolic branch during package initialisation")
		}
		panic(engineBug{"symbolic branch outside a path"})
	}
	if p.concrete != nil {
		panic(engineBug{"symbolic condition in concrete replay: " + c.String()})
	}
	if p.pcSet[c] {
		return true
	}
	if p.pcSet[Not(c)] {
		return false
	}
	if p.replaying() {
		d := p.prefix[len(p.decisions)]
		p.decisions = append(p.decisions, d)
		if d.Taken {
			m.addPC(c)
		} else {
			m.addPC(Not(c))
		}
		return d.Taken
	}
	if len(p.decisions) >= m.cfg.MaxDecisions {
		panic(boundHit{fmt.Sprintf("decision bound %d (unwinding)", m.cfg.MaxDecisions)})
	}
	rt := m.feasible(c)
	if rt == Unsat {
		p.decisions = append(p.decisions, Decision{Taken: false, Forced: true})
		m.addPC(Not(c))
		return false
	}
	rf := m.feasible(Not(c))
	if rf == Unsat {
		p.decisions = append(p.decisions, Decision{Taken: true, Forced: true})
		m.addPC(c)
		return true
	}
	// both sides possible: follow true, queue false
	if forkLog {
		where := "?"
		if m.curFrame != nil {
			where = m.curFrame.fn.String()
			if m.curFrame.caller != nil {
				where += " <- " + m.curFrame.caller.fn.String()
			}
		}
		m.X.forkSites[where]++
	}
	alt := append(append([]Decision(nil), p.decisions...), Decision{Taken: false})
	m.X.work = append(m.X.work, alt)
	p.decisions = append(p.decisions, Decision{Taken: true})
	m.addPC(c)
	return true
}

// Concretize forks over the feasible values of t, returning one per path.
func (m *Machine) Concretize(t *Term, what string) uint64 { return m.concretize(t, what, false) }

// ConcretizeLen is Concretize for allocation/loop lengths: the first LenClassK
// feasible values are explored individually; all remaining values are
// represented by (a) the largest feasible non-negative value and (b) the
// largest feasible value overall (negative when read as signed). This is a
// stated abstraction of the length axis, recorded in the evidence bounds.
func (m *Machine) ConcretizeLen(t *Term, what string) uint64 { return m.concretize(t, what, true) }

const LenClassK = 6

func (m *Machine) maxFeasible(t *Term, upper uint64) (uint64, bool) {
	// largest v <= upper with pc && t == v satisfiable (unsigned order)
	w := t.W
	if m.feasible(Ule(t, Const(w, upper))) != Sat {
		return 0, false
	}
	lo, hi := uint64(0), upper
	for lo < hi {
		mid := lo + (hi-lo+1)/2
		r := m.feasible(And(Ule(Const(w, mid), t), Ule(t, Const(w, upper))))
		if r == Sat {
			lo = mid
		} else if r == Unsat {
			hi = mid - 1
		} else {
			return lo, true
		}
	}
	return lo, true
}

func (m *Machine) concretize(t *Term, what string, classes bool) uint64 {
	if t.IsConst() {
		return t.Val
	}
	p := m.P
	if p == nil {
		unsupported("concretisation outside a path (%s)", what)
	}
	if p.concrete != nil {
		panic(engineBug{"symbolic value in concrete replay: " + t.String()})
	}
	for {
		if p.replaying() {
			d := p.prefix[len(p.decisions)]
			p.decisions = append(p.decisions, d)
			eq := Eq(t, Const(t.W, d.Val))
			if d.Taken {
				m.addPC(eq)
				return d.Val
			}
			p.concCount[what]++
			m.addPC(Not(eq))
			continue
		}
		if len(p.decisions) >= m.cfg.MaxDecisions {
			panic(boundHit{fmt.Sprintf("decision bound %d (unwinding)", m.cfg.MaxDecisions)})
		}
		var v uint64
		forcedRep := false
		if classes && p.concCount[what] >= LenClassK {
			m.X.bounds["length classes"] = fmt.Sprintf("symbolic allocation/slice lengths: the first %d feasible values individually, the rest represented by the largest non-negative and the largest (unsigned) feasible value", LenClassK)
			smax := mask(t.W) >> 1
			if p.concCount[what] == LenClassK {
				if mv, ok := m.maxFeasible(t, smax); ok {
					v = mv
				} else if mv, ok := m.maxFeasible(t, mask(t.W)); ok {
					v, forcedRep = mv, true
				} else {
					panic(pathEnd{"infeasible at concretisation"})
				}
			} else {
				mv, ok := m.maxFeasible(t, mask(t.W))
				if !ok {
					panic(pathEnd{"infeasible at concretisation"})
				}
				v, forcedRep = mv, true
			}
			if v <= smax && m.feasible(Ult(Const(t.W, smax), t)) != Sat {
				forcedRep = true
			}
		} else {
			p.concCount[what]++
			if !classes && p.concCount[what] > m.cfg.MaxConcretize {
				panic(boundHit{fmt.Sprintf("more than %d values for %s", m.cfg.MaxConcretize, what)})
			}
			// smallest feasible value (binary search with cheap feasibility queries;
			// get-value is slow in z3 once many definitions exist)
			mv, ok := m.minFeasible(t)
			if !ok {
				r := m.S.Check()
				if r != Sat {
					panic(pathEnd{"infeasible at concretisation: " + r.String()})
				}
				bv, ok := m.S.Value(t)
				if !ok {
					panic(engineBug{"no model value for " + t.String()})
				}
				mv = bv.Uint64()
			}
			v = mv
		}
		eq := Eq(t, Const(t.W, v))
		if forcedRep {
			p.decisions = append(p.decisions, Decision{Conc: true, Val: v, Taken: true, Forced: true})
			m.addPC(eq)
			return v
		}
		// is another value possible?
		if m.feasible(Not(eq)) != Unsat {
			alt := append(append([]Decision(nil), p.decisions...), Decision{Conc: true, Val: v, Taken: false})
			m.X.work = append(m.X.work, alt)
			p.decisions = append(p.decisions, Decision{Conc: true, Val: v, Taken: true})
		} else {
			p.decisions = append(p.decisions, Decision{Conc: true, Val: v, Taken: true, Forced: true})
		}
		m.addPC(eq)
		return v
	}
}

// minFeasible: smallest feasible unsigned value of t.
func (m *Machine) minFeasible(t *Term) (uint64, bool) {
	w := t.W
	lo, hi := uint64(0), mask(w)
	// quick probes for small values (the common case)
	for _, k := range []uint64{0, 1, 3, 7, 15, 255, 65535} {
		if k >= hi {
			break
		}
		r := m.feasible(Ule(t, Const(w, k)))
		if r == Sat {
			hi = k
			break
		} else if r == Unsat {
			lo = k + 1
		} else {
			return 0, false
		}
	}
	if lo > hi {
		return 0, false
	}
	for lo < hi {
		mid := lo + (hi-lo)/2
		r := m.feasible(Ule(t, Const(w, mid)))
		if r == Sat {
			hi = mid
		} else if r == Unsat {
			lo = mid + 1
		} else {
			return 0, false
		}
	}
	return lo, true
}

// Assume restricts the path; infeasible ⇒ path ends.
func (m *Machine) Assume(c *Term, text string) {
	if text != "" {
		m.X.assume[text] = true
	}
	if c.IsTrue() {
		return
	}
	if c.IsFalse() {
		panic(pathEnd{"assume"})
	}
	p := m.P
	if p.concrete != nil {
		panic(engineBug{"symbolic assume in concrete replay"})
	}
	if !p.replaying() {
		if m.feasible(c) == Unsat {
			panic(pathEnd{"assume"})
		}
	}
	m.addPC(c)
}

// Assert discharges an obligation under the current path condition.
func (m *Machine) Assert(c *Term, label string, fr *Frame) {
	x := m.X
	p := m.P
	class := label
	if p.concrete != nil {
		if !c.IsConst() {
			panic(engineBug{"symbolic assert in concrete replay"})
		}
		if c.IsFalse() {
			x.viol[class] = &Violation{Harness: x.fn.Name(), Class: class, Label: label, Kind: "assert"}
			panic(pathEnd{"assert failed (concrete)"})
		}
		return
	}
	if p.replaying() {
		// already checked by the path that first passed here
		if c.IsFalse() {
			panic(pathEnd{"assert false"})
		}
		m.addPC(c)
		return
	}
	x.R.Obligations++
	if c.IsTrue() {
		x.R.Discharged++
		return
	}
	var r SatResult
	if c.IsFalse() {
		r = m.S.Check()
	} else {
		m.S.Push()
		m.S.Assert(Not(c))
		r = m.S.Check()
	}
	switch r {
	case Unsat:
		x.R.Discharged++
		if !c.IsFalse() {
			m.S.Pop(1)
		}
	case Sat:
		if _, dup := x.viol[class]; !dup {
			v := &Violation{Harness: x.fn.Name(), Class: class, Label: label, Kind: "assert", PathLen: len(p.decisions)}
			if fr != nil {
				v.Site = fr.fn.String()
			}
			v.Model, v.Widths = x.model(p)
			x.viol[class] = v
		}
		if !c.IsFalse() {
			m.S.Pop(1)
		}
	default:
		x.R.Inconclusive = appendUniq(x.R.Inconclusive, "assert "+label+": solver "+r.String())
		if !c.IsFalse() {
			m.S.Pop(1)
		}
	}
	if c.IsFalse() {
		panic(pathEnd{"assert false"})
	}
	if r != Unsat {
		if m.feasible(c) == Unsat {
			panic(pathEnd{"assert never holds on this path"})
		}
	}
	m.addPC(c)
}

// ---------- symbols ----------

func (m *Machine) freshName(base string) string {
	p := m.P
	p.names[base]++
	if n := p.names[base]; n > 1 {
		return fmt.Sprintf("%s#%d", base, n)
	}
	return base
}

// NewInput creates a named symbolic scalar (or the concrete replay value).
func (m *Machine) NewInput(base string, w int, kind string) *Term {
	p := m.P
	if p == nil {
		unsupported("symbolic input %q requested outside a path (package initialisation?)", base)
	}
	name := m.freshName(base)
	if p.concrete != nil {
		v, ok := p.concrete[name]
		if !ok {
			v = big.NewInt(0)
		}
		if w == 0 {
			return Bool(v.Sign() != 0)
		}
		return Const(w, v.Uint64())
	}
	t := Var(name, w)
	p.inputs = append(p.inputs, Input{Name: name, T: t, Kind: kind})
	return t
}

func (m *Machine) freshBytes(base string, n int, kind string) []*Term {
	r := make([]*Term, n)
	name := m.freshName(base)
	for i := range r {
		r[i] = m.NewInput(fmt.Sprintf("%s[%d]", name, i), 8, kind)
	}
	return r
}

// ---------- oracles ----------

func termsKey(args [][]*Term) string {
	var sb strings.Builder
	for _, a := range args {
		fmt.Fprintf(&sb, "%d(", len(a))
		for _, t := range a {
			if t.IsConst() {
				fmt.Fprintf(&sb, "c%d,", t.Val)
			} else {
				fmt.Fprintf(&sb, "t%d,", t.id)
			}
		}
		sb.WriteString(")")
	}
	return sb.String()
}

// Oracle applies the uninterpreted function `name` to byte-string arguments.
// outLen bytes are returned (outLen == -1: a single Bool term in out[0]).
func (m *Machine) Oracle(name string, outLen int, inj bool, args [][]*Term) []*Term {
	p := m.P
	if p == nil {
		unsupported("oracle %s applied outside a path", name)
	}
	key := name + "|" + termsKey(args)
	p.oracleCalls++
	if app, ok := p.oracleMemo[key]; ok {
		return app.out
	}
	app := &oracleApp{name: name, key: key, args: args, inj: inj}
	base := fmt.Sprintf("orc!%s!%d", name, p.oracleCalls)
	if outLen < 0 {
		app.out = []*Term{m.NewInput(base, 0, "oracle")}
	} else {
		app.out = make([]*Term, outLen)
		for i := range app.out {
			app.out[i] = m.NewInput(fmt.Sprintf("%s[%d]", base, i), 8, "oracle")
		}
	}
	if p.concrete == nil {
		// F(args) = out gives congruence; Finv(out) = args and Flen(out) = |args|
		// give injectivity (collision freedom) with a linear number of axioms.
		var all []*Term
		lens := ""
		for _, a := range args {
			lens += fmt.Sprintf("_%d", len(a))
			all = append(all, a...)
		}
		inW := 8 * len(all)
		var in *Term
		if inW == 0 {
			in = Const(8, 0)
			inW = 8
		} else {
			in = catBytes(all)
		}
		var outT *Term
		outW := 8 * len(app.out)
		if outLen < 0 {
			outW = 0
			outT = app.out[0]
		} else if outLen > 0 {
			outT = catBytes(app.out)
		}
		// explicit pairwise axioms against the most recent applications of the same
		// function (the solver decides these quickly); beyond pairK applications the
		// linear UF encoding below takes over.
		const pairK = 1 << 30 // complete pairwise instantiation (the UF+inverse encoding made z3 4.8.12 answer unknown on wide arguments)
		same := 0
		for i := len(p.oracles) - 1; i >= 0; i-- {
			prev := p.oracles[i]
			if prev.name != name || len(prev.out) != len(app.out) {
				continue
			}
			same++
			if same > pairK {
				break
			}
			argsEq := TrueT
			if len(prev.args) != len(args) {
				argsEq = FalseT
			} else {
				for k := range args {
					argsEq = And(argsEq, bytesEqTerm(prev.args[k], args[k]))
				}
			}
			outEq := bytesOrBoolEq(prev.out, app.out)
			if !argsEq.IsFalse() {
				m.addPC(Implies(argsEq, outEq))
			}
			if inj && outLen > 0 {
				m.addPC(Implies(outEq, argsEq))
			}
		}
		if outT != nil && same > pairK {
			fname := fmt.Sprintf("F!%s!%s!%d", name, lens, outW)
			m.addPC(Eq(UF(fname, outW, in), outT))
			if inj && outLen > 0 {
				m.addPC(Eq(UF(fmt.Sprintf("Finv!%s!%s!%d", name, lens, outW), inW, outT), in))
				// distinct argument shapes => distinct outputs
				shape := fmt.Sprintf("%s|%s", name, lens)
				id, ok := m.shapeIDs[shape]
				if !ok {
					id = len(m.shapeIDs) + 1
					m.shapeIDs[shape] = id
				}
				m.addPC(Eq(UF(fmt.Sprintf("Fshape!%s!%d", name, outW), 32, outT), Const(32, uint64(id))))
			}
		}
	}
	p.oracles = append(p.oracles, app)
	p.oracleMemo[key] = app
	return app.out
}

func bytesOrBoolEq(a, b []*Term) *Term {
	if len(a) == 1 && a[0].W == 0 {
		return Eq(a[0], b[0])
	}
	return bytesEqTerm(a, b)
}

// ---------- allocation ghost counter ----------

func (m *Machine) noteAlloc(fr *Frame, n int64) {
	if m.P == nil {
		return
	}
	m.P.allocBytes += n
	if m.P.allocBytes > m.P.allocMax {
		m.P.allocMax = m.P.allocBytes
	}
}

func (m *Machine) noteHugeAlloc(fr *Frame, n int64, what string) {
	if m.P != nil {
		m.P.allocBytes += n
		if m.P.allocBytes > m.P.allocMax {
			m.P.allocMax = m.P.allocBytes
		}
		m.P.Notes = append(m.P.Notes, fmt.Sprintf("huge allocation %d (%s) in %s", n, what, fr.fn))
	}
	site, _ := m.where(fr)
	// model as a distinct interpreted panic kind: the real program would try to
	// allocate n elements (out-of-memory or gigabytes of memory).
	panic(TargetPanic{V: Iface{T: m.runtimeErrT, V: fmt.Sprintf("huge allocation of %d elements", n)}, Site: site, Kind: "alloc: huge allocation", Stack: m.stack(fr)})
}

func (m *Machine) errorText(iv Iface) string {
	if iv.T == nil {
		return "<nil>"
	}
	if s, ok := iv.V.(string); ok {
		return s
	}
	return iv.T.String()
}
