package symgo

import (
	"fmt"
	"go/types"
	"strings"

	"golang.org/x/tools/go/ssa"
)

func nop(m *Machine, fr *Frame, a []Value) Value { return nil }

func (m *Machine) goPanic(fr *Frame, kind, msg string) {
	site, _ := m.where(fr)
	panic(TargetPanic{V: Iface{T: types.Typ[types.String], V: msg}, Site: site, Kind: kind, Stack: m.stack(fr)})
}

// fieldIndex finds a struct field position by name.
func fieldIndex(t types.Type, name string) int {
	st := t.Underlying().(*types.Struct)
	for i := 0; i < st.NumFields(); i++ {
		if st.Field(i).Name() == name {
			return i
		}
	}
	panic(engineBug{"no field " + name + " in " + t.String()})
}

func (m *Machine) namedType(pkg, name string) types.Type {
	p := m.Prog.ImportedPackage(pkg)
	if p == nil {
		panic(engineBug{"package not loaded: " + pkg})
	}
	t := p.Type(name)
	if t == nil {
		panic(engineBug{"type not found: " + pkg + "." + name})
	}
	return t.Type()
}

// indexByte: first i with b[i]==c, forking on symbolic content.
func (m *Machine) indexByte(b []*Term, c *Term) int {
	for i, x := range b {
		if m.Branch(Eq(x, c)) {
			return i
		}
	}
	return -1
}

func (m *Machine) sideGet(p *Value) (Value, bool) {
	v, ok := m.side[p]
	return v, ok
}

func (m *Machine) sideSet(p *Value, v Value) {
	old, had := m.side[p]
	m.side[p] = v
	m.logUndo(func() {
		if had {
			m.side[p] = old
		} else {
			delete(m.side, p)
		}
	})
}

func registerIntrinsics(m *Machine) {
	m.side = map[*Value]Value{}
	N := m.natives

	// ---- runtime ----
	for _, n := range []string{"runtime.KeepAlive", "runtime.SetFinalizer", "runtime.GC", "runtime.Gosched", "runtime.LockOSThread", "runtime.UnlockOSThread",
		"internal/race.Acquire", "internal/race.Release", "internal/race.ReleaseMerge", "internal/race.Disable", "internal/race.Enable",
		"internal/race.Read", "internal/race.Write", "internal/race.ReadRange", "internal/race.WriteRange",
		"sync.runtime_registerPoolCleanup", "sync.throw", "sync.fatal", "runtime.AddCleanup",
	} {
		N[n] = nop
	}
	N["runtime.Gosched"] = func(m *Machine, fr *Frame, a []Value) Value { m.sched.yield(); return nil }
	N["runtime.GOMAXPROCS"] = func(m *Machine, fr *Frame, a []Value) Value { return Const(64, 1) }
	N["runtime.NumCPU"] = func(m *Machine, fr *Frame, a []Value) Value { return Const(64, 1) }
	N["runtime.Caller"] = func(m *Machine, fr *Frame, a []Value) Value {
		return Tuple{Const(64, 0), "?", Const(64, 0), FalseT}
	}
	N["runtime.Callers"] = func(m *Machine, fr *Frame, a []Value) Value { return Const(64, 0) }
	N["internal/godebug.New"] = func(m *Machine, fr *Frame, a []Value) Value {
		t := m.namedType("internal/godebug", "Setting")
		cell := new(Value)
		*cell = m.zero(t)
		return cell
	}
	N["(*internal/godebug.Setting).Value"] = func(m *Machine, fr *Frame, a []Value) Value { return "" }
	N["(*internal/godebug.Setting).IncNonDefault"] = nop
	N["(*internal/godebug.Setting).Name"] = func(m *Machine, fr *Frame, a []Value) Value { return "" }

	// ---- internal/bytealg ----
	N["internal/bytealg.IndexByte"] = func(m *Machine, fr *Frame, a []Value) Value {
		return Const(64, uint64(int64(m.indexByte(bytesOf(a[0].(Slice)), a[1].(*Term)))))
	}
	N["internal/bytealg.IndexByteString"] = func(m *Machine, fr *Frame, a []Value) Value {
		if s, ok := a[0].(string); ok {
			if c := a[1].(*Term); c.IsConst() {
				return Const(64, uint64(int64(strings.IndexByte(s, byte(c.Val)))))
			}
		}
		return Const(64, uint64(int64(m.indexByte(strBytes(a[0]), a[1].(*Term)))))
	}
	N["internal/bytealg.LastIndexByte"] = func(m *Machine, fr *Frame, a []Value) Value {
		b := bytesOf(a[0].(Slice))
		c := a[1].(*Term)
		for i := len(b) - 1; i >= 0; i-- {
			if m.Branch(Eq(b[i], c)) {
				return Const(64, uint64(i))
			}
		}
		return Const(64, ^uint64(0))
	}
	N["internal/bytealg.LastIndexByteString"] = func(m *Machine, fr *Frame, a []Value) Value {
		b := strBytes(a[0])
		c := a[1].(*Term)
		for i := len(b) - 1; i >= 0; i-- {
			if m.Branch(Eq(b[i], c)) {
				return Const(64, uint64(i))
			}
		}
		return Const(64, ^uint64(0))
	}
	N["internal/stringslite.IndexByte"] = N["internal/bytealg.IndexByteString"]
	count := func(b []*Term, c *Term) Value {
		n := Const(64, 0)
		for _, x := range b {
			n = BinBV(OpAdd, n, BoolToBV(Eq(x, c), 64))
		}
		return n
	}
	N["internal/bytealg.Count"] = func(m *Machine, fr *Frame, a []Value) Value { return count(bytesOf(a[0].(Slice)), a[1].(*Term)) }
	N["internal/bytealg.CountString"] = func(m *Machine, fr *Frame, a []Value) Value { return count(strBytes(a[0]), a[1].(*Term)) }
	N["internal/bytealg.Equal"] = func(m *Machine, fr *Frame, a []Value) Value {
		return bytesEqTerm(bytesOf(a[0].(Slice)), bytesOf(a[1].(Slice)))
	}
	N["bytes.Equal"] = N["internal/bytealg.Equal"]
	N["internal/bytealg.Compare"] = func(m *Machine, fr *Frame, a []Value) Value {
		x, y := bytesOf(a[0].(Slice)), bytesOf(a[1].(Slice))
		lt := bytesLess(x, y, false)
		eq := bytesEqTerm(x, y)
		return Ite(eq, Const(64, 0), Ite(lt, Const(64, ^uint64(0)), Const(64, 1)))
	}
	N["bytes.Compare"] = N["internal/bytealg.Compare"]
	N["internal/bytealg.CompareString"] = func(m *Machine, fr *Frame, a []Value) Value {
		x, y := strBytes(a[0]), strBytes(a[1])
		lt := bytesLess(x, y, false)
		eq := bytesEqTerm(x, y)
		return Ite(eq, Const(64, 0), Ite(lt, Const(64, ^uint64(0)), Const(64, 1)))
	}
	indexSeq := func(m *Machine, hay, needle []*Term) int {
		if len(needle) == 0 {
			return 0
		}
		for i := 0; i+len(needle) <= len(hay); i++ {
			if m.Branch(bytesEqTerm(hay[i:i+len(needle)], needle)) {
				return i
			}
		}
		return -1
	}
	N["internal/bytealg.Index"] = func(m *Machine, fr *Frame, a []Value) Value {
		return Const(64, uint64(int64(indexSeq(m, bytesOf(a[0].(Slice)), bytesOf(a[1].(Slice))))))
	}
	N["internal/bytealg.IndexString"] = func(m *Machine, fr *Frame, a []Value) Value {
		if s, ok := a[0].(string); ok {
			if t, ok := a[1].(string); ok {
				return Const(64, uint64(int64(strings.Index(s, t))))
			}
		}
		return Const(64, uint64(int64(indexSeq(m, strBytes(a[0]), strBytes(a[1])))))
	}
	N["strings.Index"] = N["internal/bytealg.IndexString"]
	N["internal/stringslite.Index"] = N["internal/bytealg.IndexString"]
	N["bytes.Index"] = N["internal/bytealg.Index"]
	N["internal/bytealg.MakeNoZero"] = func(m *Machine, fr *Frame, a []Value) Value {
		n := m.concLen(fr, a[0].(*Term), "MakeNoZero")
		return m.makeSlice(fr, types.Typ[types.Uint8], n, n)
	}
	N["strings.EqualFold"] = func(m *Machine, fr *Frame, a []Value) Value {
		s, ok1 := a[0].(string)
		t, ok2 := a[1].(string)
		if !ok1 || !ok2 {
			unsupported("strings.EqualFold on symbolic strings")
		}
		return Bool(strings.EqualFold(s, t))
	}

	// ---- strings.Builder (uses unsafe) ----
	N["(*strings.Builder).String"] = func(m *Machine, fr *Frame, a []Value) Value {
		p := a[0].(*Value)
		st := (*p).(Struct)
		bt := m.namedType("strings", "Builder")
		buf := st[fieldIndex(bt, "buf")].(Slice)
		return mkStr(bytesOf(buf))
	}
	N["(*strings.Builder).copyCheck"] = nop
	N["strings.Clone"] = func(m *Machine, fr *Frame, a []Value) Value { return a[0] }
	N["internal/stringslite.Clone"] = N["strings.Clone"]
	N["strconv.cloneString"] = N["strings.Clone"]
	N["unique.Make[string]"] = func(m *Machine, fr *Frame, a []Value) Value { unsupported("unique.Make"); return nil }

	// ---- sync ----
	N["(*sync.Mutex).Lock"] = func(m *Machine, fr *Frame, a []Value) Value {
		p := a[0].(*Value)
		m.sched.block(func() bool { v, _ := m.sideGet(p); return v == nil }, "mutex lock")
		m.sideSet(p, true)
		return nil
	}
	N["(*sync.Mutex).TryLock"] = func(m *Machine, fr *Frame, a []Value) Value {
		p := a[0].(*Value)
		if v, _ := m.sideGet(p); v != nil {
			return FalseT
		}
		m.sideSet(p, true)
		return TrueT
	}
	N["(*sync.Mutex).Unlock"] = func(m *Machine, fr *Frame, a []Value) Value {
		p := a[0].(*Value)
		if v, _ := m.sideGet(p); v == nil {
			m.goPanic(fr, "fatal: unlock of unlocked mutex", "sync: unlock of unlocked mutex")
		}
		m.sideSet(p, nil)
		return nil
	}
	// RWMutex: writer = true, readers = int count
	N["(*sync.RWMutex).Lock"] = func(m *Machine, fr *Frame, a []Value) Value {
		p := a[0].(*Value)
		m.sched.block(func() bool { v, _ := m.sideGet(p); return v == nil }, "rwmutex lock")
		m.sideSet(p, true)
		return nil
	}
	N["(*sync.RWMutex).Unlock"] = func(m *Machine, fr *Frame, a []Value) Value {
		m.sideSet(a[0].(*Value), nil)
		return nil
	}
	N["(*sync.RWMutex).RLock"] = func(m *Machine, fr *Frame, a []Value) Value {
		p := a[0].(*Value)
		m.sched.block(func() bool { v, _ := m.sideGet(p); return v != true }, "rwmutex rlock")
		v, _ := m.sideGet(p)
		n, _ := v.(int)
		m.sideSet(p, n+1)
		return nil
	}
	N["(*sync.RWMutex).RUnlock"] = func(m *Machine, fr *Frame, a []Value) Value {
		p := a[0].(*Value)
		v, _ := m.sideGet(p)
		n, _ := v.(int)
		if n <= 1 {
			m.sideSet(p, nil)
		} else {
			m.sideSet(p, n-1)
		}
		return nil
	}
	N["(*sync.Once).Do"] = func(m *Machine, fr *Frame, a []Value) Value {
		p := a[0].(*Value)
		if v, _ := m.sideGet(p); v != nil {
			return nil
		}
		m.sideSet(p, true)
		m.call(fr, a[1], nil, 0)
		return nil
	}
	N["(*sync.Pool).Get"] = func(m *Machine, fr *Frame, a []Value) Value {
		p := a[0].(*Value)
		st := (*p).(Struct)
		newf := st[fieldIndex(m.namedType("sync", "Pool"), "New")]
		if newf == nil || isNilFn(newf) {
			return Iface{}
		}
		return m.call(fr, newf, nil, 0)
	}
	N["(*sync.Pool).Put"] = nop
	N["(*sync.WaitGroup).Add"] = func(m *Machine, fr *Frame, a []Value) Value {
		p := a[0].(*Value)
		v, _ := m.sideGet(p)
		n, _ := v.(int)
		m.sideSet(p, n+int(m.concInt(a[1].(*Term), "waitgroup delta")))
		return nil
	}
	N["(*sync.WaitGroup).Done"] = func(m *Machine, fr *Frame, a []Value) Value {
		p := a[0].(*Value)
		v, _ := m.sideGet(p)
		n, _ := v.(int)
		m.sideSet(p, n-1)
		return nil
	}
	N["(*sync.WaitGroup).Wait"] = func(m *Machine, fr *Frame, a []Value) Value {
		p := a[0].(*Value)
		m.sched.block(func() bool { v, _ := m.sideGet(p); n, _ := v.(int); return n <= 0 }, "waitgroup wait")
		return nil
	}
	N["(*sync.WaitGroup).Go"] = func(m *Machine, fr *Frame, a []Value) Value {
		p := a[0].(*Value)
		v, _ := m.sideGet(p)
		n, _ := v.(int)
		m.sideSet(p, n+1)
		f := a[1]
		m.sched.spawn(&Native{Name: "wg.Go", Fn: func(m *Machine, fr *Frame, _ []Value) Value {
			m.call(fr, f, nil, 0)
			v, _ := m.sideGet(p)
			n, _ := v.(int)
			m.sideSet(p, n-1)
			return nil
		}}, nil, 0)
		return nil
	}
	// sync.Cond
	N["(*sync.Cond).Wait"] = func(m *Machine, fr *Frame, a []Value) Value {
		p := a[0].(*Value)
		st := (*p).(Struct)
		L := st[fieldIndex(m.namedType("sync", "Cond"), "L")].(Iface)
		unlock := m.lookupMethodByName(L.T, "Unlock")
		lock := m.lookupMethodByName(L.T, "Lock")
		v, _ := m.sideGet(p)
		gen, _ := v.(int)
		m.call(fr, unlock, []Value{L.V}, 0)
		m.sched.block(func() bool { v, _ := m.sideGet(p); g, _ := v.(int); return g != gen }, "cond wait")
		m.call(fr, lock, []Value{L.V}, 0)
		return nil
	}
	condSignal := func(m *Machine, fr *Frame, a []Value) Value {
		p := a[0].(*Value)
		v, _ := m.sideGet(p)
		g, _ := v.(int)
		m.sideSet(p, g+1)
		return nil
	}
	N["(*sync.Cond).Signal"] = condSignal
	N["(*sync.Cond).Broadcast"] = condSignal
	// sync.Map via side table holding *Map keyed by iface
	N["(*sync.Map).Load"] = func(m *Machine, fr *Frame, a []Value) Value {
		mp := m.syncMap(a[0].(*Value))
		if e := m.mapFind(mp, a[1]); e != nil {
			return Tuple{e.val, TrueT}
		}
		return Tuple{Iface{}, FalseT}
	}
	N["(*sync.Map).Store"] = func(m *Machine, fr *Frame, a []Value) Value {
		m.mapSet(m.syncMap(a[0].(*Value)), a[1], a[2])
		return nil
	}
	N["(*sync.Map).LoadOrStore"] = func(m *Machine, fr *Frame, a []Value) Value {
		mp := m.syncMap(a[0].(*Value))
		if e := m.mapFind(mp, a[1]); e != nil {
			return Tuple{e.val, TrueT}
		}
		m.mapSet(mp, a[1], a[2])
		return Tuple{a[2], FalseT}
	}
	N["(*sync.Map).Delete"] = func(m *Machine, fr *Frame, a []Value) Value {
		m.mapDelete(m.syncMap(a[0].(*Value)), a[1])
		return nil
	}

	// ---- sync/atomic ----
	for _, ty := range []string{"Int32", "Int64", "Uint32", "Uint64", "Uintptr", "Pointer"} {
		N["sync/atomic.Load"+ty] = func(m *Machine, fr *Frame, a []Value) Value { return m.load(fr, a[0].(*Value)) }
		N["sync/atomic.Store"+ty] = func(m *Machine, fr *Frame, a []Value) Value {
			m.store(a[0].(*Value), a[1])
			return nil
		}
		N["sync/atomic.Swap"+ty] = func(m *Machine, fr *Frame, a []Value) Value {
			p := a[0].(*Value)
			old := *p
			m.store(p, a[1])
			return old
		}
		N["sync/atomic.CompareAndSwap"+ty] = func(m *Machine, fr *Frame, a []Value) Value {
			p := a[0].(*Value)
			eq := m.equals(fr, nil, *p, a[1])
			if m.Branch(eq) {
				m.store(p, a[2])
				return TrueT
			}
			return FalseT
		}
		if ty != "Pointer" {
			N["sync/atomic.Add"+ty] = func(m *Machine, fr *Frame, a []Value) Value {
				p := a[0].(*Value)
				nv := BinBV(OpAdd, (*p).(*Term), a[1].(*Term))
				m.store(p, nv)
				return nv
			}
			N["sync/atomic.And"+ty] = func(m *Machine, fr *Frame, a []Value) Value {
				p := a[0].(*Value)
				old := (*p).(*Term)
				m.store(p, BinBV(OpBAnd, old, a[1].(*Term)))
				return old
			}
			N["sync/atomic.Or"+ty] = func(m *Machine, fr *Frame, a []Value) Value {
				p := a[0].(*Value)
				old := (*p).(*Term)
				m.store(p, BinBV(OpBOr, old, a[1].(*Term)))
				return old
			}
		}
	}
	N["(*sync/atomic.Value).Load"] = func(m *Machine, fr *Frame, a []Value) Value {
		if v, ok := m.sideGet(a[0].(*Value)); ok && v != nil {
			return v
		}
		return Iface{}
	}
	N["(*sync/atomic.Value).Store"] = func(m *Machine, fr *Frame, a []Value) Value {
		m.sideSet(a[0].(*Value), a[1])
		return nil
	}
	N["(*sync/atomic.Value).Swap"] = func(m *Machine, fr *Frame, a []Value) Value {
		p := a[0].(*Value)
		old, _ := m.sideGet(p)
		m.sideSet(p, a[1])
		if old == nil {
			return Iface{}
		}
		return old
	}
	N["(*sync/atomic.Value).CompareAndSwap"] = func(m *Machine, fr *Frame, a []Value) Value {
		p := a[0].(*Value)
		old, _ := m.sideGet(p)
		if old == nil {
			old = Iface{}
		}
		if m.Branch(m.equals(fr, nil, old, a[1])) {
			m.sideSet(p, a[2])
			return TrueT
		}
		return FalseT
	}

	// ---- sort ----
	N["sort.Slice"] = func(m *Machine, fr *Frame, a []Value) Value { m.sortSlice(fr, a[0], a[1], false); return nil }
	N["sort.SliceStable"] = func(m *Machine, fr *Frame, a []Value) Value { m.sortSlice(fr, a[0], a[1], true); return nil }
	N["internal/reflectlite.Swapper"] = func(m *Machine, fr *Frame, a []Value) Value {
		s := a[0].(Iface).V.(Slice)
		return &Native{Name: "swapper", Fn: func(m *Machine, fr *Frame, b []Value) Value {
			i, j := m.intArg(b[0], "swap i"), m.intArg(b[1], "swap j")
			x, y := s.A[i], s.A[j]
			m.store(&s.A[i], y)
			m.store(&s.A[j], x)
			return nil
		}}
	}

	// ---- errors ----
	N["errors.Is"] = func(m *Machine, fr *Frame, a []Value) Value { return m.errorsIs(fr, a[0].(Iface), a[1].(Iface), 0) }
	N["errors.As"] = func(m *Machine, fr *Frame, a []Value) Value { return m.errorsAs(fr, a[0].(Iface), a[1].(Iface)) }

	// ---- fmt ----
	N["fmt.Errorf"] = func(m *Machine, fr *Frame, a []Value) Value { return m.fmtErrorf(fr, a[0], a[1].(Slice)) }
	N["fmt.Sprintf"] = func(m *Machine, fr *Frame, a []Value) Value { return m.sprintf(fr, a[0], a[1].(Slice).A) }
	N["fmt.Sprint"] = func(m *Machine, fr *Frame, a []Value) Value { return m.sprint(fr, a[0].(Slice).A, "") }
	N["fmt.Sprintln"] = func(m *Machine, fr *Frame, a []Value) Value {
		s := m.sprint(fr, a[0].(Slice).A, " ")
		if str, ok := s.(string); ok {
			return str + "\n"
		}
		return s
	}
	N["fmt.Appendf"] = func(m *Machine, fr *Frame, a []Value) Value {
		s := m.sprintf(fr, a[1], a[2].(Slice).A)
		b := append(append([]Value{}, a[0].(Slice).A...), mkByteSlice(strBytes(s)).A...)
		return Slice{A: b}
	}
	fprint := func(m *Machine, fr *Frame, w Iface, s Value) Value {
		wr := m.lookupMethodByName(w.T, "Write")
		r := m.call(fr, wr, []Value{w.V, mkByteSlice(strBytes(s))}, 0)
		return r
	}
	N["fmt.Fprintf"] = func(m *Machine, fr *Frame, a []Value) Value {
		return fprint(m, fr, a[0].(Iface), m.sprintf(fr, a[1], a[2].(Slice).A))
	}
	N["fmt.Fprint"] = func(m *Machine, fr *Frame, a []Value) Value {
		return fprint(m, fr, a[0].(Iface), m.sprint(fr, a[1].(Slice).A, ""))
	}
	N["fmt.Fprintln"] = func(m *Machine, fr *Frame, a []Value) Value {
		s := m.sprint(fr, a[1].(Slice).A, " ")
		if str, ok := s.(string); ok {
			s = str + "\n"
		}
		return fprint(m, fr, a[0].(Iface), s)
	}
	for _, n := range []string{"fmt.Printf", "fmt.Println", "fmt.Print"} {
		N[n] = func(m *Machine, fr *Frame, a []Value) Value { return Tuple{Const(64, 0), Iface{}} }
	}
	N["fmt.Sscanf"] = func(m *Machine, fr *Frame, a []Value) Value { unsupported("fmt.Sscanf"); return nil }

	// ---- log / slog ----
	for _, n := range []string{"log.Printf", "log.Println", "log.Print", "log/slog.Debug", "log/slog.Info", "log/slog.Warn", "log/slog.Error",
		"log/slog.DebugContext", "log/slog.InfoContext", "log/slog.WarnContext", "log/slog.ErrorContext",
		"(*log/slog.Logger).Debug", "(*log/slog.Logger).Info", "(*log/slog.Logger).Warn", "(*log/slog.Logger).Error",
		"(*log/slog.Logger).DebugContext", "(*log/slog.Logger).InfoContext", "(*log/slog.Logger).WarnContext", "(*log/slog.Logger).ErrorContext",
		"(*log/slog.Logger).Log", "log/slog.Log", "log/slog.SetDefault", "log/slog.SetLogLoggerLevel"} {
		N[n] = nop
	}
	N["log/slog.Default"] = func(m *Machine, fr *Frame, a []Value) Value {
		cell := new(Value)
		*cell = m.zero(m.namedType("log/slog", "Logger"))
		return cell
	}
	N["(*log/slog.Logger).Enabled"] = func(m *Machine, fr *Frame, a []Value) Value { return FalseT }
	N["(*log/slog.Logger).With"] = func(m *Machine, fr *Frame, a []Value) Value { return a[0] }
	N["log/slog.With"] = N["log/slog.Default"]
	for _, n := range []string{"log/slog.String", "log/slog.Int", "log/slog.Any", "log/slog.Bool", "log/slog.Int64", "log/slog.Uint64", "log/slog.Duration", "log/slog.Time", "log/slog.Group"} {
		N[n] = func(m *Machine, fr *Frame, a []Value) Value { return m.zero(m.namedType("log/slog", "Attr")) }
	}
	N["log.Fatalf"] = func(m *Machine, fr *Frame, a []Value) Value { m.goPanic(fr, "log.Fatal", "log.Fatalf called"); return nil }
	N["log.Fatal"] = N["log.Fatalf"]
	N["os.Exit"] = func(m *Machine, fr *Frame, a []Value) Value { m.goPanic(fr, "os.Exit", "os.Exit called"); return nil }
	N["os.Getenv"] = func(m *Machine, fr *Frame, a []Value) Value { return "" }
	N["os.LookupEnv"] = func(m *Machine, fr *Frame, a []Value) Value { return Tuple{"", FalseT} }

	// ---- time ----
	N["time.Now"] = func(m *Machine, fr *Frame, a []Value) Value { return m.timeNow(fr) }
	N["time.Since"] = func(m *Machine, fr *Frame, a []Value) Value { return Const(64, 0) }
	N["time.Sleep"] = func(m *Machine, fr *Frame, a []Value) Value { m.sched.yield(); return nil }
	N["time.AfterFunc"] = func(m *Machine, fr *Frame, a []Value) Value {
		cell := new(Value)
		*cell = m.zero(m.namedType("time", "Timer"))
		return cell
	}
	N["time.NewTimer"] = func(m *Machine, fr *Frame, a []Value) Value {
		tt := m.namedType("time", "Timer")
		st := m.zero(tt).(Struct)
		st[fieldIndex(tt, "C")] = m.makeChan(1)
		var v Value = st
		return &v
	}
	// formatting an instant is never branched on by the code under test; the calendar
	// arithmetic behind it is expensive for the solver, so the text is opaque
	N["(time.Time).String"] = func(m *Machine, fr *Frame, a []Value) Value { return "<time>" }
	N["(time.Time).GoString"] = func(m *Machine, fr *Frame, a []Value) Value { return "<time>" }
	N["(time.Time).Format"] = func(m *Machine, fr *Frame, a []Value) Value { return "<time>" }
	// SQL issued directly on *sql.DB (outside the helper functions a harness models) cannot be
	// executed: the harness is inconclusive, it neither passes nor reports a violation
	for _, n := range []string{"ExecContext", "QueryRowContext", "QueryContext", "BeginTx", "Exec", "Query", "QueryRow", "PrepareContext"} {
		name := n
		N["(*database/sql.DB)."+name] = func(m *Machine, fr *Frame, a []Value) Value {
			unsupported("direct SQL statement ((*sql.DB).%s) outside the modelled SQL helper functions", name)
			return nil
		}
	}
	N["time.After"] = func(m *Machine, fr *Frame, a []Value) Value { return m.makeChan(1) }
	N["(*time.Timer).Stop"] = func(m *Machine, fr *Frame, a []Value) Value { return TrueT }
	N["(*time.Timer).Reset"] = func(m *Machine, fr *Frame, a []Value) Value { return TrueT }
	N["time.runtimeNano"] = func(m *Machine, fr *Frame, a []Value) Value { return Const(64, 0) }
	// the local time zone is modelled as UTC: nil and &localLoc resolve to &utcLoc
	N["(*time.Location).get"] = func(m *Machine, fr *Frame, a []Value) Value {
		tp := m.Prog.ImportedPackage("time")
		p, _ := a[0].(*Value)
		if p == nil || p == m.globals[tp.Var("localLoc")] {
			return m.globals[tp.Var("utcLoc")]
		}
		return a[0]
	}

	// ---- context: timeouts never fire (deadlines are not part of any property) ----
	withCancel := func(m *Machine, fr *Frame, a []Value) Value {
		fn := m.Prog.ImportedPackage("context").Func("WithCancel")
		return m.call(fr, fn, []Value{a[0]}, 0)
	}
	N["context.WithTimeout"] = withCancel
	N["context.WithDeadline"] = withCancel
	N["context.WithTimeoutCause"] = withCancel
	N["context.WithDeadlineCause"] = withCancel

	// ---- crypto/internal/constanttime (compiler intrinsics) ----
	N["crypto/internal/constanttime.boolToUint8"] = func(m *Machine, fr *Frame, a []Value) Value {
		return BoolToBV(a[0].(*Term), 8)
	}

	// ---- misc stdlib ----
	N["strconv.ParseFloat"] = func(m *Machine, fr *Frame, a []Value) Value { unsupported("strconv.ParseFloat"); return nil }
	N["math.Float64bits"] = func(m *Machine, fr *Frame, a []Value) Value { unsupported("math.Float64bits"); return nil }
	N["os.Hostname"] = func(m *Machine, fr *Frame, a []Value) Value { return Tuple{"host", Iface{}} }
}

func isNilFn(v Value) bool {
	switch f := v.(type) {
	case *ssa.Function:
		return f == nil
	case *Closure:
		return f == nil
	case *Native:
		return f == nil
	case nil:
		return true
	}
	return false
}

func (m *Machine) syncMap(p *Value) *Map {
	if v, ok := m.sideGet(p); ok && v != nil {
		return v.(*Map)
	}
	any := types.NewInterfaceType(nil, nil)
	mp := m.newMap(types.NewMap(any, any))
	m.sideSet(p, mp)
	return mp
}

func (m *Machine) lookupMethodByName(t types.Type, name string) Value {
	if nn, ok := m.isNativeType(t); ok {
		key := "(" + nn + ")." + name
		if nf, ok := m.natives[key]; ok {
			return &Native{Name: key, Fn: nf}
		}
		return nil
	}
	ms := m.Prog.MethodSets.MethodSet(t)
	for i := 0; i < ms.Len(); i++ {
		sel := ms.At(i)
		if sel.Obj().Name() == name {
			return m.Prog.MethodValue(sel)
		}
	}
	return nil
}

// sortSlice runs the real pdqsort (or insertion sort for the stable variant)
// from package sort over a native swapper.
func (m *Machine) sortSlice(fr *Frame, x Value, less Value, stable bool) {
	s := x.(Iface).V.(Slice)
	n := len(s.A)
	swap := &Native{Name: "swapper", Fn: func(m *Machine, fr *Frame, b []Value) Value {
		i, j := m.intArg(b[0], "swap i"), m.intArg(b[1], "swap j")
		xv, yv := s.A[i], s.A[j]
		m.store(&s.A[i], yv)
		m.store(&s.A[j], xv)
		return nil
	}}
	sortPkg := m.Prog.ImportedPackage("sort")
	ls := m.zero(sortPkg.Type("lessSwap").Type()).(Struct)
	lt := sortPkg.Type("lessSwap").Type()
	ls[fieldIndex(lt, "Less")] = less
	ls[fieldIndex(lt, "Swap")] = swap
	if stable {
		fn := sortPkg.Func("stable_func")
		m.call(fr, fn, []Value{ls, Const(64, uint64(n))}, 0)
		return
	}
	fn := sortPkg.Func("pdqsort_func")
	limit := 0
	for k := n; k > 0; k >>= 1 {
		limit++
	}
	m.call(fr, fn, []Value{ls, Const(64, 0), Const(64, uint64(n)), Const(64, uint64(limit))}, 0)
}

// ---------- errors ----------

func (m *Machine) errorsIs(fr *Frame, err, target Iface, depth int) *Term {
	if err.T == nil || target.T == nil {
		return Bool(err.T == nil && target.T == nil)
	}
	if depth > 32 {
		unsupported("errors.Is chain too deep")
	}
	comparable := types.Comparable(target.T)
	for {
		if comparable && types.Identical(err.T, target.T) {
			eq := m.equals(fr, err.T, err.V, target.V)
			if m.Branch(eq) {
				return TrueT
			}
		}
		if isf := m.lookupMethodByName(err.T, "Is"); isf != nil {
			if f, ok := isf.(*ssa.Function); !ok || (f.Signature.Params().Len() == 1 && f.Signature.Results().Len() == 1) {
				r := m.call(fr, isf, []Value{err.V, target}, 0)
				if rt, ok := r.(*Term); ok && m.Branch(rt) {
					return TrueT
				}
			}
		}
		uw := m.lookupMethodByName(err.T, "Unwrap")
		if uw == nil {
			return FalseT
		}
		r := m.call(fr, uw, []Value{err.V}, 0)
		switch rv := r.(type) {
		case Iface:
			if rv.T == nil {
				return FalseT
			}
			err = rv
		case Slice:
			for _, e := range rv.A {
				ei := e.(Iface)
				if ei.T == nil {
					continue
				}
				if m.Branch(m.errorsIs(fr, ei, target, depth+1)) {
					return TrueT
				}
			}
			return FalseT
		default:
			return FalseT
		}
	}
}

func (m *Machine) errorsAs(fr *Frame, err, target Iface) *Term {
	if err.T == nil {
		return FalseT
	}
	if target.T == nil {
		m.goPanic(fr, "errors.As", "errors: target cannot be nil")
	}
	pt, ok := target.T.Underlying().(*types.Pointer)
	if !ok || target.V.(*Value) == nil {
		m.goPanic(fr, "errors.As", "errors: target must be a non-nil pointer")
	}
	tt := pt.Elem()
	dst := target.V.(*Value)
	for depth := 0; depth < 32; depth++ {
		assignable := false
		if it, isI := tt.Underlying().(*types.Interface); isI {
			assignable = m.implements(err.T, it)
			if assignable {
				m.store(dst, err)
				return TrueT
			}
		} else if types.Identical(err.T, tt) {
			m.storeTo(dst, err.V)
			return TrueT
		}
		if asf := m.lookupMethodByName(err.T, "As"); asf != nil {
			r := m.call(fr, asf, []Value{err.V, target}, 0)
			if rt, ok := r.(*Term); ok && m.Branch(rt) {
				return TrueT
			}
		}
		uw := m.lookupMethodByName(err.T, "Unwrap")
		if uw == nil {
			return FalseT
		}
		r := m.call(fr, uw, []Value{err.V}, 0)
		switch rv := r.(type) {
		case Iface:
			if rv.T == nil {
				return FalseT
			}
			err = rv
		case Slice:
			for _, e := range rv.A {
				ei := e.(Iface)
				if ei.T != nil && m.Branch(m.errorsAs(fr, ei, target)) {
					return TrueT
				}
			}
			return FalseT
		default:
			return FalseT
		}
	}
	return FalseT
}

// ---------- fmt ----------

func (m *Machine) fmtArg(fr *Frame, v Value, verb byte) (string, bool) {
	iv, ok := v.(Iface)
	if !ok {
		return "?", true
	}
	if iv.T == nil {
		return "<nil>", true
	}
	if verb == 'T' {
		return iv.T.String(), true
	}
	switch x := iv.V.(type) {
	case *Term:
		if !x.IsConst() {
			return "<sym>", false
		}
		if x.W == 0 {
			return fmt.Sprint(x.Val == 1), true
		}
		if verb != 'x' && verb != 'X' {
			// Stringer / error on named ints
			if s, ok := m.tryStringer(fr, iv); ok {
				return s, true
			}
		}
		if isSigned(iv.T) {
			switch verb {
			case 'x':
				return fmt.Sprintf("%x", signExt(x.Val, x.W)), true
			case 'c':
				return string(rune(x.Val)), true
			}
			return fmt.Sprintf("%d", signExt(x.Val, x.W)), true
		}
		switch verb {
		case 'x':
			return fmt.Sprintf("%x", x.Val), true
		case 'c':
			return string(rune(x.Val)), true
		}
		return fmt.Sprintf("%d", x.Val), true
	case string:
		if verb == 'q' {
			return fmt.Sprintf("%q", x), true
		}
		if verb == 'x' {
			return fmt.Sprintf("%x", x), true
		}
		if s, ok := m.tryStringer(fr, iv); ok && verb != 's' || ok {
			return s, true
		}
		return x, true
	case SymStr:
		return "<symstr>", false
	case float64:
		return fmt.Sprint(x), true
	case Slice:
		if eb := sliceElemBasic(iv.T); eb != nil && eb.Kind() == types.Uint8 {
			if b, ok := tryConcreteBytes(bytesOf(x)); ok {
				switch verb {
				case 'x':
					return fmt.Sprintf("%x", b), true
				case 's':
					return string(b), true
				}
				return fmt.Sprintf("%v", b), true
			}
			return "<symbytes>", false
		}
		if s, ok := m.tryStringer(fr, iv); ok {
			return s, true
		}
		return fmt.Sprintf("[%d items]", len(x.A)), true
	}
	if s, ok := m.tryStringer(fr, iv); ok {
		return s, true
	}
	return "<" + iv.T.String() + ">", true
}

func sliceElemBasic(t types.Type) *types.Basic {
	if st, ok := t.Underlying().(*types.Slice); ok {
		return basicOf(st.Elem())
	}
	return nil
}

// tryStringer calls Error() or String() if the dynamic type has them.
func (m *Machine) tryStringer(fr *Frame, iv Iface) (string, bool) {
	if m.fmtDepth > 3 {
		return "", false
	}
	for _, name := range []string{"Error", "String"} {
		f := m.lookupMethodByName(iv.T, name)
		if f == nil {
			continue
		}
		if sf, ok := f.(*ssa.Function); ok {
			if sf.Signature.Params().Len() != 0 || sf.Signature.Results().Len() != 1 {
				continue
			}
			if b := basicOf(sf.Signature.Results().At(0).Type()); b == nil || b.Kind() != types.String {
				continue
			}
		}
		if p, ok := iv.V.(*Value); ok && p == nil {
			return "<nil>", true
		}
		m.fmtDepth++
		var out Value
		func() {
			defer func() {
				m.fmtDepth--
				if r := recover(); r != nil {
					if isControlPanic(r) {
						panic(r)
					}
					out = "<panic in " + name + ">"
				}
			}()
			out = m.call(fr, f, []Value{iv.V}, 0)
		}()
		if s, ok := out.(string); ok {
			return s, true
		}
		return "<sym>", true
	}
	return "", false
}

func (m *Machine) sprintf(fr *Frame, format Value, args []Value) Value {
	f, ok := format.(string)
	if !ok {
		return "<symbolic format>"
	}
	var sb strings.Builder
	ai := 0
	for i := 0; i < len(f); i++ {
		c := f[i]
		if c != '%' {
			sb.WriteByte(c)
			continue
		}
		i++
		if i >= len(f) {
			break
		}
		// flags/width
		for i < len(f) && strings.IndexByte("+-# 0123456789.*", f[i]) >= 0 {
			i++
		}
		if i >= len(f) {
			break
		}
		verb := f[i]
		if verb == '%' {
			sb.WriteByte('%')
			continue
		}
		if ai >= len(args) {
			sb.WriteString("%!" + string(verb) + "(MISSING)")
			continue
		}
		s, _ := m.fmtArg(fr, args[ai], verb)
		ai++
		sb.WriteString(s)
	}
	return sb.String()
}

func (m *Machine) sprint(fr *Frame, args []Value, sep string) Value {
	var sb strings.Builder
	for i, a := range args {
		if i > 0 {
			sb.WriteString(sep)
		}
		s, _ := m.fmtArg(fr, a, 'v')
		sb.WriteString(s)
	}
	return sb.String()
}

func (m *Machine) fmtErrorf(fr *Frame, format Value, args Slice) Value {
	msg := m.sprintf(fr, format, args.A)
	f, _ := format.(string)
	// collect %w operands in order
	var wrapped []Iface
	ai := 0
	for i := 0; i < len(f); i++ {
		if f[i] != '%' {
			continue
		}
		i++
		for i < len(f) && strings.IndexByte("+-# 0123456789.*", f[i]) >= 0 {
			i++
		}
		if i >= len(f) {
			break
		}
		if f[i] == '%' {
			continue
		}
		if f[i] == 'w' && ai < len(args.A) {
			if e, ok := args.A[ai].(Iface); ok && e.T != nil {
				if m.lookupMethodByName(e.T, "Error") != nil {
					wrapped = append(wrapped, e)
				}
			}
		}
		ai++
	}
	fmtPkg := m.Prog.ImportedPackage("fmt")
	switch len(wrapped) {
	case 0:
		ep := m.Prog.ImportedPackage("errors")
		t := ep.Type("errorString").Type()
		var cell Value = Struct{msg}
		return Iface{T: types.NewPointer(t), V: &cell}
	case 1:
		t := fmtPkg.Type("wrapError").Type()
		st := m.zero(t).(Struct)
		st[fieldIndex(t, "msg")] = msg
		st[fieldIndex(t, "err")] = wrapped[0]
		var cell Value = st
		return Iface{T: types.NewPointer(t), V: &cell}
	default:
		t := fmtPkg.Type("wrapErrors").Type()
		st := m.zero(t).(Struct)
		st[fieldIndex(t, "msg")] = msg
		errs := make([]Value, len(wrapped))
		for i, w := range wrapped {
			errs[i] = w
		}
		st[fieldIndex(t, "errs")] = Slice{A: errs}
		var cell Value = st
		return Iface{T: types.NewPointer(t), V: &cell}
	}
}

// ---------- time ----------

// timeNow returns a symbolic instant: whole seconds (no monotonic reading)
// between 2001 and 2100, non-decreasing across calls on one path.
func (m *Machine) timeNow(fr *Frame) Value {
	tt := m.namedType("time", "Time")
	st := m.zero(tt).(Struct)
	if m.P != nil && m.P.ghost["clock-frozen"] != nil && m.P.clockLast != nil {
		// frozen clock: every reading on this path is the same instant
		st[fieldIndex(tt, "wall")] = Const(64, 0)
		st[fieldIndex(tt, "ext")] = m.P.clockLast
		return st
	}
	if m.P != nil && m.P.ghost["clock-concrete"] != nil {
		// harnesses for which time plays no role: a fixed instant (2030-01-01), stated in their bounds
		st[fieldIndex(tt, "wall")] = Const(64, 0)
		st[fieldIndex(tt, "ext")] = Const(64, 64029052800)
		return st
	}
	sec := m.NewInput("clock!now", 64, "clock")
	// seconds since year 1: 2001-01-01 = 63113904000 ; 2100-01-01 = 66238041600 (approx bounds)
	if m.P.concrete == nil {
		m.addPC(And(Ule(Const(64, 63113904000), sec), Ule(sec, Const(64, 66238041600))))
		if m.P.clockLast != nil {
			m.addPC(Ule(m.P.clockLast, sec))
		}
	}
	m.P.clockLast = sec
	st[fieldIndex(tt, "wall")] = Const(64, 0)
	st[fieldIndex(tt, "ext")] = sec
	locCell := m.globals[m.Prog.ImportedPackage("time").Var("localLoc")]
	_ = locCell
	// loc = nil means UTC
	return st
}
