package symgo

import (
	"fmt"
	"go/constant"
	"go/token"
	"go/types"
	"os"
	"sort"
	"strings"

	"golang.org/x/tools/go/ssa"
)

// Engine control-flow panics (never seen by interpreted code).
type pathEnd struct{ reason string }    // path finished/abandoned silently
type pathKilled struct{}                // goroutine teardown
type boundHit struct{ what string }     // unwinding / depth / decision bound reached
type harnessPanic struct{ p TargetPanic } // uncaught interpreted panic reached the root

// TargetPanic is an interpreted Go panic.
type TargetPanic struct {
	V     Value  // the panic value (an Iface)
	Site  string // function in which it was raised
	Pos   string
	Kind  string // "runtime: index out of range", "explicit", ...
	Stack []string
}

type NativeFunc func(m *Machine, fr *Frame, args []Value) Value

type fnInfo struct {
	idx    map[ssa.Value]int
	nregs  int
	consts map[*ssa.Const]Value
	intr   NativeFunc
	repl   *ssa.Function
	name   string
	isRepo bool
	execd  int64
}

type undoRec struct {
	p   *Value
	old Value
	f   func()
}

type Config struct {
	MaxDecisions   int   // per path
	MaxSteps       int64 // SSA instructions per path
	MaxCallDepth   int
	MaxConcretize  int // distinct values per concretisation site per path
	SolverTimeout  int // ms
	SolverKind     string
	Trace          bool
	RepoPrefix     string // import path prefix of the repository under test
	MaxPaths       int
	MaxWall        float64 // seconds per harness (0 = unlimited)
}

type Machine struct {
	Prog      *ssa.Program
	globals   map[*ssa.Global]*Value
	fninfo    map[*ssa.Function]*fnInfo
	journal   []undoRec
	journalOn bool
	cfg       Config
	S         *Solver
	P         *Path
	inited    map[*ssa.Package]int
	InitNotes []string
	steps     int64
	depth     int
	natives   map[string]NativeFunc
	repls     map[string]string
	nativeTypes map[string]*types.Named
	// goroutines
	sched *scheduler
	// types
	runtimeErrT types.Type
	fresh     int
	initMode  bool
	X         *Explorer
	errorsNew *ssa.Function
	curFrame  *Frame
	side      map[*Value]Value
	shapeIDs  map[string]int
	Tier      int
	fmtDepth  int
}

type deferred struct {
	fn   Value
	args []Value
	pos  token.Pos
	tail *deferred
}

type Frame struct {
	m         *Machine
	caller    *Frame
	fn        *ssa.Function
	info      *fnInfo
	block     *ssa.BasicBlock
	prev      *ssa.BasicBlock
	regs      []Value
	defers    *deferred
	result    Value
	panicking bool
	panicVal  any
	callPos   token.Pos
}

func NewMachine(prog *ssa.Program, cfg Config) *Machine {
	m := &Machine{
		Prog:    prog,
		globals: map[*ssa.Global]*Value{},
		fninfo:  map[*ssa.Function]*fnInfo{},
		cfg:     cfg,
		inited:  map[*ssa.Package]int{},
		natives: map[string]NativeFunc{},
		repls:   map[string]string{},
		nativeTypes: map[string]*types.Named{},
		shapeIDs: map[string]int{},
	}
	if rt := prog.ImportedPackage("runtime"); rt != nil {
		if t := rt.Type("errorString"); t != nil {
			m.runtimeErrT = t.Object().Type()
		}
	}
	for _, pkg := range prog.AllPackages() {
		for _, mem := range pkg.Members {
			if g, ok := mem.(*ssa.Global); ok {
				cell := m.zero(deref(g.Type()))
				m.globals[g] = &cell
			}
		}
	}
	registerIntrinsics(m)
	registerReflect(m)
	registerVerifAPI(m)
	m.sched = newScheduler(m)
	return m
}

func (m *Machine) info(fn *ssa.Function) *fnInfo {
	if fi, ok := m.fninfo[fn]; ok {
		return fi
	}
	fi := &fnInfo{idx: map[ssa.Value]int{}, consts: map[*ssa.Const]Value{}}
	n := 0
	for _, p := range fn.Params {
		fi.idx[p] = n
		n++
	}
	for _, fv := range fn.FreeVars {
		fi.idx[fv] = n
		n++
	}
	for _, b := range fn.Blocks {
		for _, ins := range b.Instrs {
			if v, ok := ins.(ssa.Value); ok {
				fi.idx[v] = n
				n++
			}
		}
	}
	fi.nregs = n
	name := fn.String()
	if o := fn.Origin(); o != nil {
		name = o.String()
	}
	fi.name = name
	if fn.Parent() == nil || true {
		if nf, ok := m.natives[name]; ok {
			fi.intr = nf
		} else if nf, ok := m.natives[fn.String()]; ok {
			fi.intr = nf
		}
		if r, ok := m.repls[name]; ok {
			fi.repl = m.lookupFunc(r)
			if fi.repl == nil {
				panic("replacement not found: " + r)
			}
		}
	}
	if fn.Pkg != nil && m.cfg.RepoPrefix != "" && strings.HasPrefix(fn.Pkg.Pkg.Path(), m.cfg.RepoPrefix) {
		fi.isRepo = true
	} else if fn.Pkg == nil && m.cfg.RepoPrefix != "" {
		// methods of instantiated generics / wrappers: attribute by origin or parent
		o := fn
		if fn.Origin() != nil {
			o = fn.Origin()
		}
		if o.Pkg != nil && strings.HasPrefix(o.Pkg.Pkg.Path(), m.cfg.RepoPrefix) {
			fi.isRepo = true
		}
	}
	m.fninfo[fn] = fi
	return fi
}

// lookupFunc finds "pkgpath.Func" or "(pkgpath.T).Method" / "(*pkgpath.T).Method".
func (m *Machine) lookupFunc(full string) *ssa.Function {
	if strings.HasPrefix(full, "(") {
		// method
		i := strings.Index(full, ").")
		recv, meth := full[1:i], full[i+2:]
		ptr := strings.HasPrefix(recv, "*")
		recv = strings.TrimPrefix(recv, "*")
		dot := strings.LastIndex(recv, ".")
		pkg := m.Prog.ImportedPackage(recv[:dot])
		if pkg == nil {
			return nil
		}
		tn := pkg.Type(recv[dot+1:])
		if tn == nil {
			return nil
		}
		var t types.Type = tn.Type()
		if ptr {
			t = types.NewPointer(t)
		}
		sel := m.Prog.MethodSets.MethodSet(t).Lookup(pkg.Pkg, meth)
		if sel == nil {
			return nil
		}
		return m.Prog.MethodValue(sel)
	}
	dot := strings.LastIndex(full, ".")
	pkg := m.Prog.ImportedPackage(full[:dot])
	if pkg == nil {
		return nil
	}
	return pkg.Func(full[dot+1:])
}

// ---------- journal ----------

func (m *Machine) store(p *Value, v Value) {
	if m.journalOn {
		m.journal = append(m.journal, undoRec{p: p, old: *p})
	}
	*p = v
}

func (m *Machine) logUndo(f func()) {
	if m.journalOn {
		m.journal = append(m.journal, undoRec{f: f})
	}
}

func (m *Machine) rollback() {
	for i := len(m.journal) - 1; i >= 0; i-- {
		r := &m.journal[i]
		if r.f != nil {
			r.f()
		} else {
			*r.p = r.old
		}
	}
	m.journal = m.journal[:0]
}

// ---------- panics ----------

func (m *Machine) where(fr *Frame) (string, string) {
	if fr == nil {
		return "?", ""
	}
	return fr.fn.String(), ""
}

func (m *Machine) runtimePanic(fr *Frame, kind string, msg string) {
	site, _ := m.where(fr)
	var v Value
	if m.runtimeErrT != nil {
		v = Iface{T: m.runtimeErrT, V: msg}
	} else {
		v = Iface{T: types.Typ[types.String], V: "runtime error: " + msg}
	}
	panic(TargetPanic{V: v, Site: site, Kind: "runtime: " + kind, Stack: m.stack(fr)})
}

func (m *Machine) stack(fr *Frame) []string {
	var s []string
	for f := fr; f != nil && len(s) < 12; f = f.caller {
		s = append(s, f.fn.String())
	}
	return s
}

func isControlPanic(r any) bool {
	switch r.(type) {
	case pathEnd, pathKilled, boundHit, Unsupported, harnessPanic, engineBug:
		return true
	}
	return false
}

type engineBug struct{ msg string }

// ---------- frame ----------

func (fr *Frame) get(v ssa.Value) Value {
	switch v := v.(type) {
	case nil:
		return nil
	case *ssa.Const:
		if c, ok := fr.info.consts[v]; ok {
			return c
		}
		c := fr.m.constValue(v)
		fr.info.consts[v] = c
		return c
	case *ssa.Function:
		return v
	case *ssa.Builtin:
		return v
	case *ssa.Global:
		fr.m.touchPkg(v.Pkg)
		return fr.m.globals[v]
	}
	if i, ok := fr.info.idx[v]; ok {
		return fr.regs[i]
	}
	panic(engineBug{fmt.Sprintf("get: no value for %T %v in %s", v, v.Name(), fr.fn)})
}

func (fr *Frame) set(v ssa.Value, x Value) {
	fr.regs[fr.info.idx[v]] = x
}

func (m *Machine) constValue(c *ssa.Const) Value {
	if c.Value == nil {
		return m.zero(c.Type())
	}
	if b, ok := c.Type().Underlying().(*types.Basic); ok {
		if w, _, ok := intWidth(b); ok {
			if w == 0 {
				return Bool(constant.BoolVal(c.Value))
			}
			if v, exact := constant.Uint64Val(constant.ToInt(c.Value)); exact {
				return Const(w, v)
			}
			v, _ := constant.Int64Val(constant.ToInt(c.Value))
			return Const(w, uint64(v))
		}
		switch b.Kind() {
		case types.Float32, types.Float64, types.UntypedFloat:
			return c.Float64()
		case types.Complex64, types.Complex128, types.UntypedComplex:
			return c.Complex128()
		case types.String, types.UntypedString:
			if c.Value.Kind() == constant.String {
				return constant.StringVal(c.Value)
			}
			return string(rune(c.Int64()))
		}
	}
	panic(engineBug{fmt.Sprintf("constValue: %v", c)})
}

// ---------- package init ----------

var skipInitPkgs = map[string]bool{
	"runtime": true, "unsafe": true, "reflect": true, "sync": true, "sync/atomic": true,
	"syscall": true, "os": true, "internal/poll": true, "internal/reflectlite": true,
	"internal/cpu": true, "internal/bytealg": true, "internal/abi": true, "internal/godebug": true,
	"internal/syscall/unix": true, "internal/testlog": true, "runtime/debug": true, "os/signal": true,
	"log": true, "log/slog": true, "log/slog/internal/buffer": true, "fmt": true, "net": true, "os/exec": true, "os/user": true,
	"internal/oserror": true, "path/filepath": true, "io/fs": true, "internal/race": true, "internal/syscall/execenv": true,
	"crypto/internal/boring": true, "crypto/internal/fips140": true, "vendor/golang.org/x/sys/cpu": true,
	"crypto/rand": true, "crypto/internal/sysrand": true, "crypto/internal/entropy": true, "math/rand": true, "math/rand/v2": true,
	"testing": true, "flag": true, "mime": true, "mime/multipart": true, "net/http": true, "net/http/internal": true, "crypto/tls": true,
	"net/textproto": true, "compress/gzip": true, "compress/flate": true, "golang.org/x/net/http/httpguts": true,
	"net/http/httptrace": true, "net/http/internal/ascii": true, "crypto/x509": true, "crypto/x509/pkix": true, "encoding/asn1": true,
	"hash/crc32": true, "crypto/internal/fips140deps/godebug": true, "crypto/internal/fips140deps/cpu": true, "net/netip": true, "net/url": true,
	"database/sql": true, "database/sql/driver": true, "html": true, "html/template": true, "text/template": true, "encoding/json": true, "encoding/pem":true,
	"crypto/elliptic": true, "crypto/ecdsa": true, "crypto/rsa": true, "crypto/ecdh": true, "crypto/internal/fips140/check": true,
	"crypto/aes": true, "crypto/cipher": true, "crypto/hmac": true, "crypto/sha256": true, "crypto/sha512": true, "crypto/sha1": true, "crypto/md5": true,
	"crypto/des": true, "crypto/ed25519": true, "crypto/dsa": true, "crypto/rc4": true, "crypto/sha3": true, "crypto/hkdf": true, "crypto/mlkem": true,
	"math/big": true, "internal/godebugs": true, "internal/bisect": true, "internal/itoa": true, "internal/stringslite": true,
	"internal/goos": true, "internal/goarch": true, "internal/runtime/atomic": true, "internal/runtime/sys": true, "internal/chacha8rand": true,
	"runtime/internal/sys": true, "internal/profilerecord": true, "internal/runtime/maps": true, "internal/runtime/math": true,
	"internal/runtime/syscall": true, "internal/runtime/exithook": true, "internal/asan": true, "internal/msan": true, "internal/byteorder": true,
	"internal/sync": true, "iter": true, "weak": true, "unique": true, "internal/weak": true, "internal/concurrent": true, "internal/nettrace": true, "internal/singleflight": true,
	"embed": true, "runtime/cgo": true, "internal/filepathlite": true, "internal/syscall/windows": true, "internal/testenv": true, "runtime/pprof": true, "runtime/trace": true, "text/tabwriter": true,
}

func (m *Machine) skipInit(path string) bool {
	if skipInitPkgs[path] {
		return true
	}
	if strings.HasPrefix(path, "crypto/internal/") || strings.HasPrefix(path, "vendor/") || strings.HasPrefix(path, "internal/") ||
		strings.HasPrefix(path, "golang.org/x/") || strings.HasPrefix(path, "github.com/ncruces") || strings.HasPrefix(path, "github.com/tetratelabs") ||
		strings.HasPrefix(path, "github.com/google/go-tpm") {
		return true
	}
	return false
}

// touchPkg makes sure pkg's initialiser has run (lazy, dependency-first).
func (m *Machine) touchPkg(pkg *ssa.Package) {
	if pkg == nil || m.inited[pkg] != 0 {
		return
	}
	m.initPackage(pkg)
}

func (m *Machine) initPackage(pkg *ssa.Package) {
	if m.inited[pkg] != 0 {
		return
	}
	m.inited[pkg] = 1
	path := pkg.Pkg.Path()
	if m.skipInit(path) {
		m.inited[pkg] = 2
		m.initSkipped(pkg)
		return
	}
	initFn := pkg.Func("init")
	if initFn == nil || initFn.Blocks == nil {
		m.inited[pkg] = 2
		return
	}
	savedJ := m.journalOn
	savedInit := m.initMode
	savedP := m.P
	m.journalOn = false
	m.initMode = true
	m.P = nil
	savedDepth, savedSteps := m.depth, m.steps
	func() {
		defer func() {
			if r := recover(); r != nil {
				switch r := r.(type) {
				case Unsupported:
					m.InitNotes = append(m.InitNotes, fmt.Sprintf("init %s incomplete: %s", path, r.Msg))
				case TargetPanic:
					m.InitNotes = append(m.InitNotes, fmt.Sprintf("init %s panicked: %s in %s", path, r.Kind, r.Site))
				case engineBug:
					m.InitNotes = append(m.InitNotes, fmt.Sprintf("init %s engine bug: %s", path, r.msg))
				default:
					panic(r)
				}
			}
		}()
		m.callSSA(nil, initFn, nil, nil, token.NoPos)
	}()
	m.depth, m.steps = savedDepth, savedSteps
	m.journalOn = savedJ
	m.initMode = savedInit
	m.P = savedP
	m.inited[pkg] = 2
}

// ---------- calls ----------

func (m *Machine) call(fr *Frame, fn Value, args []Value, pos token.Pos) Value {
	switch fn := fn.(type) {
	case *ssa.Function:
		if fn == nil {
			m.runtimePanic(fr, "nil func", "invalid memory address or nil pointer dereference")
		}
		return m.callSSA(fr, fn, args, nil, pos)
	case *Closure:
		return m.callSSA(fr, fn.Fn, args, fn.Env, pos)
	case *ssa.Builtin:
		return m.callBuiltin(fr, fn, args, pos)
	case *Native:
		return fn.Fn(m, fr, args)
	case nil:
		m.runtimePanic(fr, "nil func", "invalid memory address or nil pointer dereference")
	}
	panic(engineBug{fmt.Sprintf("cannot call %T", fn)})
}

func (m *Machine) callSSA(caller *Frame, fn *ssa.Function, args []Value, env []Value, pos token.Pos) Value {
	fi := m.info(fn)
	if fn.Pkg != nil && fn.Pkg.Func("init") == fn && fn.Parent() == nil && fn.Signature.Recv() == nil {
		// package initialiser called from another package's init
		if m.inited[fn.Pkg] == 0 {
			m.initPackage(fn.Pkg)
			return nil
		}
		if m.inited[fn.Pkg] == 2 {
			return nil
		}
	}
	if fi.intr != nil {
		return fi.intr(m, caller, args)
	}
	if fi.repl != nil {
		return m.callSSA(caller, fi.repl, args, nil, pos)
	}
	if fn.Blocks == nil {
		unsupported("call to %s (no body, no model)", fi.name)
	}
	if fn.Pkg != nil {
		m.touchPkg(fn.Pkg)
	}
	m.depth++
	if m.depth > m.cfg.MaxCallDepth {
		panic(boundHit{"call depth " + fn.String()})
	}
	fr := &Frame{m: m, caller: caller, fn: fn, info: fi, callPos: pos}
	fr.regs = make([]Value, fi.nregs)
	n := 0
	for range fn.Params {
		fr.regs[n] = args[n]
		n++
	}
	for i := range fn.FreeVars {
		fr.regs[n] = env[i]
		n++
	}
	for _, l := range fn.Locals {
		cell := new(Value)
		*cell = m.zero(deref(l.Type()))
		fr.regs[fi.idx[l]] = cell
	}
	fr.block = fn.Blocks[0]
	for fr.block != nil {
		m.runFrame(fr)
	}
	m.depth--
	return fr.result
}

func (m *Machine) runFrame(fr *Frame) {
	defer func() {
		if fr.block == nil {
			return
		}
		r := recover()
		if r == nil {
			panic(engineBug{"runFrame: nil recover in " + fr.fn.String()})
		}
		if isControlPanic(r) {
			panic(r)
		}
		if _, ok := r.(TargetPanic); !ok {
			// interpreter crash: convert into an engine bug with location
			panic(engineBug{fmt.Sprintf("interpreter crash in %s: %v", fr.fn, r)})
		}
		fr.panicking = true
		fr.panicVal = r
		m.depth = fr.depthAtEntry()
		fr.runDefers()
		fr.block = fr.fn.Recover
		if fr.block == nil {
			// recovered in a function without named results: return zero values
			fr.result = m.zero(fr.fn.Signature.Results())
			if fr.fn.Signature.Results().Len() == 0 {
				fr.result = nil
			}
		}
	}()
	for {
		blk := fr.block
		m.curFrame = fr
		instrs := blk.Instrs
		// phis
		k := 0
		for k < len(instrs) {
			if _, ok := instrs[k].(*ssa.Phi); !ok {
				break
			}
			k++
		}
		if k > 0 {
			pi := -1
			for i, p := range blk.Preds {
				if p == fr.prev {
					pi = i
					break
				}
			}
			tmp := make([]Value, k)
			for i := 0; i < k; i++ {
				tmp[i] = fr.get(instrs[i].(*ssa.Phi).Edges[pi])
			}
			for i := 0; i < k; i++ {
				fr.set(instrs[i].(*ssa.Phi), tmp[i])
			}
		}
		fr.info.execd += int64(len(instrs))
		m.steps += int64(len(instrs))
		if m.steps > m.cfg.MaxSteps && !m.initMode {
			panic(boundHit{"step budget"})
		}
		for _, ins := range instrs[k:] {
			if m.cfg.Trace {
				fmt.Fprintf(os.Stderr, "%s%s: %v\n", strings.Repeat(" ", m.depth), fr.fn.Name(), ins)
			}
			switch m.visit(fr, ins) {
			case kReturn:
				return
			case kJump:
			}
		}
	}
}

func (fr *Frame) depthAtEntry() int {
	d := 0
	for f := fr; f != nil; f = f.caller {
		d++
	}
	return d
}

func (fr *Frame) runDefer(d *deferred) {
	ok := false
	defer func() {
		if !ok {
			r := recover()
			if isControlPanic(r) {
				panic(r)
			}
			if _, isTP := r.(TargetPanic); !isTP {
				panic(engineBug{fmt.Sprintf("interpreter crash in deferred call: %v", r)})
			}
			fr.panicking = true
			fr.panicVal = r
		}
	}()
	fr.m.call(fr, d.fn, d.args, d.pos)
	ok = true
}

func (fr *Frame) runDefers() {
	for d := fr.defers; d != nil; d = d.tail {
		fr.runDefer(d)
	}
	fr.defers = nil
	if fr.panicking {
		panic(fr.panicVal)
	}
}

type cont int

const (
	kNext cont = iota
	kReturn
	kJump
)

func (m *Machine) visit(fr *Frame, instr ssa.Instruction) cont {
	switch ins := instr.(type) {
	case *ssa.DebugRef:
	case *ssa.UnOp:
		fr.set(ins, m.unop(fr, ins, fr.get(ins.X)))
	case *ssa.BinOp:
		fr.set(ins, m.binop(fr, ins.Op, ins.X.Type(), fr.get(ins.X), fr.get(ins.Y)))
	case *ssa.Call:
		fn, args := m.prepareCall(fr, &ins.Call)
		fr.set(ins, m.call(fr, fn, args, ins.Pos()))
	case *ssa.ChangeInterface:
		fr.set(ins, fr.get(ins.X))
	case *ssa.ChangeType:
		fr.set(ins, fr.get(ins.X))
	case *ssa.Convert:
		fr.set(ins, m.conv(fr, ins.Type(), ins.X.Type(), fr.get(ins.X)))
	case *ssa.MultiConvert:
		fr.set(ins, m.conv(fr, ins.Type(), ins.X.Type(), fr.get(ins.X)))
	case *ssa.SliceToArrayPointer:
		s := fr.get(ins.X).(Slice)
		n := int(deref(ins.Type()).Underlying().(*types.Array).Len())
		if len(s.A) < n {
			m.runtimePanic(fr, "slice to array", fmt.Sprintf("cannot convert slice with length %d to array or pointer to array with length %d", len(s.A), n))
		}
		if s.A == nil {
			fr.set(ins, (*Value)(nil))
		} else {
			// pointer to an array sharing storage is not expressible with boxed
			// cells; build an Array view over the same cells via aliasing struct
			var cell Value = ArrayView{A: s.A[:n:n]}
			fr.set(ins, &cell)
		}
	case *ssa.MakeInterface:
		fr.set(ins, Iface{T: ins.X.Type(), V: fr.get(ins.X)})
	case *ssa.Extract:
		fr.set(ins, fr.get(ins.Tuple).(Tuple)[ins.Index])
	case *ssa.Slice:
		fr.set(ins, m.sliceOp(fr, ins))
	case *ssa.Return:
		switch len(ins.Results) {
		case 0:
			fr.result = nil
		case 1:
			fr.result = fr.get(ins.Results[0])
		default:
			res := make(Tuple, len(ins.Results))
			for i, r := range ins.Results {
				res[i] = fr.get(r)
			}
			fr.result = res
		}
		fr.block = nil
		return kReturn
	case *ssa.RunDefers:
		fr.runDefers()
	case *ssa.Panic:
		site, _ := m.where(fr)
		panic(TargetPanic{V: fr.get(ins.X), Site: site, Kind: "explicit", Stack: m.stack(fr)})
	case *ssa.Send:
		m.chanSend(fr, fr.get(ins.Chan).(*Chan), copyVal(fr.get(ins.X)))
	case *ssa.Store:
		p := fr.get(ins.Addr).(*Value)
		if p == nil {
			m.runtimePanic(fr, "nil dereference", "invalid memory address or nil pointer dereference")
		}
		m.storeTo(p, fr.get(ins.Val))
	case *ssa.If:
		c := fr.get(ins.Cond).(*Term)
		succ := 1
		if m.Branch(c) {
			succ = 0
		}
		fr.prev, fr.block = fr.block, fr.block.Succs[succ]
		return kJump
	case *ssa.Jump:
		fr.prev, fr.block = fr.block, fr.block.Succs[0]
		return kJump
	case *ssa.Defer:
		fn, args := m.prepareCall(fr, &ins.Call)
		defers := &fr.defers
		if ins.DeferStack != nil {
			if into := fr.get(ins.DeferStack); into != nil {
				defers = into.(**deferred)
			}
		}
		*defers = &deferred{fn: fn, args: args, pos: ins.Pos(), tail: *defers}
	case *ssa.Go:
		fn, args := m.prepareCall(fr, &ins.Call)
		m.sched.spawn(fn, args, ins.Pos())
	case *ssa.MakeChan:
		fr.set(ins, m.makeChan(int(m.concInt(fr.get(ins.Size).(*Term), "chan size"))))
	case *ssa.Alloc:
		var addr *Value
		if ins.Heap {
			addr = new(Value)
			fr.set(ins, addr)
		} else {
			addr = fr.get(ins).(*Value)
		}
		*addr = m.zero(deref(ins.Type()))
	case *ssa.MakeSlice:
		ln := m.concLen(fr, fr.get(ins.Len).(*Term), "make len")
		cp := m.concLen(fr, fr.get(ins.Cap).(*Term), "make cap")
		if ln < 0 {
			m.runtimePanic(fr, "makeslice", "makeslice: len out of range")
		}
		if cp < ln {
			m.runtimePanic(fr, "makeslice", "makeslice: cap out of range")
		}
		elem := ins.Type().Underlying().(*types.Slice).Elem()
		fr.set(ins, m.makeSlice(fr, elem, ln, cp))
	case *ssa.MakeMap:
		fr.set(ins, m.newMap(ins.Type().Underlying().(*types.Map)))
	case *ssa.Range:
		fr.set(ins, m.rangeIter(fr, fr.get(ins.X), ins.X.Type()))
	case *ssa.Next:
		fr.set(ins, fr.get(ins.Iter).(iterator).next(m))
	case *ssa.FieldAddr:
		p := fr.get(ins.X).(*Value)
		if p == nil {
			m.runtimePanic(fr, "nil dereference", "invalid memory address or nil pointer dereference")
		}
		s, ok := (*p).(Struct)
		if !ok {
			panic(engineBug{fmt.Sprintf("FieldAddr on %T (%v) in %s", *p, ins.X.Type(), fr.fn)})
		}
		fr.set(ins, &s[ins.Field])
	case *ssa.Field:
		fr.set(ins, copyVal(fr.get(ins.X).(Struct)[ins.Field]))
	case *ssa.IndexAddr:
		fr.set(ins, m.indexAddr(fr, ins))
	case *ssa.Index:
		fr.set(ins, m.index(fr, ins))
	case *ssa.Lookup:
		fr.set(ins, m.lookup(fr, ins))
	case *ssa.MapUpdate:
		mp := fr.get(ins.Map).(*Map)
		if mp == nil {
			site, _ := m.where(fr)
			panic(TargetPanic{V: Iface{T: types.Typ[types.String], V: "assignment to entry in nil map"}, Site: site, Kind: "runtime: nil map write", Stack: m.stack(fr)})
		}
		m.mapSet(mp, copyVal(fr.get(ins.Key)), copyVal(fr.get(ins.Value)))
	case *ssa.TypeAssert:
		fr.set(ins, m.typeAssert(fr, ins, fr.get(ins.X).(Iface)))
	case *ssa.MakeClosure:
		b := make([]Value, len(ins.Bindings))
		for i, x := range ins.Bindings {
			b[i] = fr.get(x)
		}
		fr.set(ins, &Closure{Fn: ins.Fn.(*ssa.Function), Env: b})
	case *ssa.Select:
		fr.set(ins, m.selectOp(fr, ins))
	default:
		panic(engineBug{fmt.Sprintf("unexpected instruction %T", instr)})
	}
	return kNext
}

// ArrayView is an array whose cells alias a slice's backing store
// (result of slice-to-array-pointer conversion).
type ArrayView struct{ A []Value }

func (m *Machine) storeTo(p *Value, v Value) {
	// writing through a pointer to an ArrayView writes the shared cells
	if av, ok := (*p).(ArrayView); ok {
		src := v.(Array)
		for i := range av.A {
			m.store(&av.A[i], copyVal(src[i]))
		}
		return
	}
	if av, ok := v.(ArrayView); ok {
		c := make(Array, len(av.A))
		for i := range c {
			c[i] = copyVal(av.A[i])
		}
		m.store(p, c)
		return
	}
	m.store(p, copyVal(v))
}

func (m *Machine) load(fr *Frame, p *Value) Value {
	if p == nil {
		m.runtimePanic(fr, "nil dereference", "invalid memory address or nil pointer dereference")
	}
	if av, ok := (*p).(ArrayView); ok {
		c := make(Array, len(av.A))
		for i := range c {
			c[i] = copyVal(av.A[i])
		}
		return c
	}
	return copyVal(*p)
}

func (m *Machine) prepareCall(fr *Frame, call *ssa.CallCommon) (Value, []Value) {
	v := fr.get(call.Value)
	var args []Value
	var fn Value
	if call.Method == nil {
		fn = v
	} else {
		recv := v.(Iface)
		if recv.T == nil {
			m.runtimePanic(fr, "nil interface call", "invalid memory address or nil pointer dereference")
		}
		fn = m.lookupMethod(recv.T, call.Method)
		if fn == nil {
			panic(engineBug{fmt.Sprintf("method set of %v lacks %s", recv.T, call.Method)})
		}
		args = append(args, recv.V)
	}
	for _, a := range call.Args {
		args = append(args, fr.get(a))
	}
	return fn, args
}

func (m *Machine) lookupMethod(t types.Type, meth *types.Func) Value {
	if nt, ok := t.(*types.Named); ok {
		if nt.Obj().Pkg() != nil && nt.Obj().Pkg().Path() == "symgo/native" {
			key := "(" + nt.Obj().Name() + ")." + meth.Name()
			if nf, ok := m.natives[key]; ok {
				return &Native{Name: key, Fn: nf}
			}
			panic(engineBug{"native method missing: " + key})
		}
	}
	f := m.Prog.LookupMethod(t, meth.Pkg(), meth.Name())
	if f == nil {
		return nil
	}
	return f
}

// nativeType returns (creating on demand) a synthetic named type used as the
// dynamic type of engine-implemented objects.
var nativePkg = types.NewPackage("symgo/native", "native")

func (m *Machine) nativeType(name string) *types.Named {
	if t, ok := m.nativeTypes[name]; ok {
		return t
	}
	t := types.NewNamed(types.NewTypeName(token.NoPos, nativePkg, name, nil), types.NewStruct(nil, nil), nil)
	m.nativeTypes[name] = t
	return t
}

func (m *Machine) isNativeType(t types.Type) (string, bool) {
	if nt, ok := t.(*types.Named); ok && nt.Obj().Pkg() == nativePkg {
		return nt.Obj().Name(), true
	}
	return "", false
}

// implements reports whether dynamic type t implements interface it.
func (m *Machine) implements(t types.Type, it *types.Interface) bool {
	if name, ok := m.isNativeType(t); ok {
		if name == "rtype" {
			return it.NumMethods() > 0 && (it.Method(0).Pkg() == nil || it.Method(0).Pkg().Path() == "reflect" || it.Method(0).Pkg().Path() == "internal/reflectlite" || m.allIn(it, "rtype"))
		}
		for i := 0; i < it.NumMethods(); i++ {
			if _, ok := m.natives["("+name+")."+it.Method(i).Name()]; !ok {
				return false
			}
		}
		return true
	}
	return types.Implements(t, it)
}

func (m *Machine) typeAssert(fr *Frame, ins *ssa.TypeAssert, x Iface) Value {
	var ok bool
	var v Value
	if it, isI := ins.AssertedType.Underlying().(*types.Interface); isI {
		if x.T != nil && m.implements(x.T, it) {
			ok = true
			v = x
		}
	} else if x.T != nil && types.Identical(x.T, ins.AssertedType) {
		ok = true
		v = copyVal(x.V)
	}
	if ins.CommaOk {
		if !ok {
			v = m.zero(ins.AssertedType)
		}
		return Tuple{v, Bool(ok)}
	}
	if !ok {
		site, _ := m.where(fr)
		msg := fmt.Sprintf("interface conversion: interface is %v, not %v", x.T, ins.AssertedType)
		var pv Value = Iface{T: types.Typ[types.String], V: msg}
		if m.runtimeErrT != nil {
			pv = Iface{T: m.runtimeErrT, V: msg}
		}
		panic(TargetPanic{V: pv, Site: site, Kind: "runtime: type assertion", Stack: m.stack(fr)})
	}
	return v
}

// FunctionsExecuted reports repository functions executed with instruction counts.
func (m *Machine) FunctionsExecuted() map[string]int64 {
	r := map[string]int64{}
	for fn, fi := range m.fninfo {
		if fi.isRepo && fi.execd > 0 {
			r[fn.String()] += fi.execd
		}
	}
	return r
}

func sortedKeys(mp map[string]int64) []string {
	var k []string
	for s := range mp {
		k = append(k, s)
	}
	sort.Strings(k)
	return k
}

// initSkipped gives sentinel error variables of packages whose initialiser is not
// executed a distinct non-nil value (they are compared by identity only).
func (m *Machine) initSkipped(pkg *ssa.Package) {
	ep := m.Prog.ImportedPackage("errors")
	if ep == nil {
		return
	}
	est := ep.Type("errorString")
	if est == nil {
		return
	}
	for _, mem := range pkg.Members {
		g, ok := mem.(*ssa.Global)
		if !ok {
			continue
		}
		t := deref(g.Type())
		if !types.Identical(t, types.Universe.Lookup("error").Type()) {
			continue
		}
		var cell Value = Struct{pkg.Pkg.Path() + "." + g.Name()}
		*m.globals[g] = Iface{T: types.NewPointer(est.Type()), V: &cell}
	}
}

func (m *Machine) allIn(it *types.Interface, name string) bool {
	for i := 0; i < it.NumMethods(); i++ {
		if _, ok := m.natives["("+name+")."+it.Method(i).Name()]; !ok {
			return false
		}
	}
	return true
}
