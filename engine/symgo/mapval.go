package symgo

import (
	"fmt"
	"go/types"
	"strings"

	"golang.org/x/tools/go/ssa"
)

// Map is an insertion-ordered association list with an index for concrete keys.
type Map struct {
	typ     *types.Map
	entries []*mapEntry
	idx     map[string]*mapEntry // concrete keys only
	nsym    int                  // live entries with symbolic keys
}

type mapEntry struct {
	key, val Value
	ck       string // canonical key string when concrete
	conc     bool
	deleted  bool
}

func (m *Machine) newMap(t *types.Map) *Map {
	return &Map{typ: t, idx: map[string]*mapEntry{}}
}

// keyString returns a canonical string for a fully concrete key.
func keyString(v Value, sb *strings.Builder) bool {
	switch v := v.(type) {
	case nil:
		sb.WriteString("nil;")
	case *Term:
		if !v.IsConst() {
			return false
		}
		fmt.Fprintf(sb, "%d:%d;", v.W, v.Val)
	case float64:
		fmt.Fprintf(sb, "f%v;", v)
	case string:
		fmt.Fprintf(sb, "s%d:%s;", len(v), v)
	case SymStr:
		return false
	case *Value:
		fmt.Fprintf(sb, "p%p;", v)
	case *Map:
		fmt.Fprintf(sb, "m%p;", v)
	case *Chan:
		fmt.Fprintf(sb, "c%p;", v)
	case *ssa.Function:
		fmt.Fprintf(sb, "F%p;", v)
	case Struct:
		sb.WriteString("{")
		for _, f := range v {
			if !keyString(f, sb) {
				return false
			}
		}
		sb.WriteString("}")
	case Array:
		sb.WriteString("[")
		for _, f := range v {
			if !keyString(f, sb) {
				return false
			}
		}
		sb.WriteString("]")
	case Iface:
		if v.T == nil {
			sb.WriteString("inil;")
		} else {
			fmt.Fprintf(sb, "i%d<", typeHasher.Hash(v.T))
			sb.WriteString(v.T.String())
			sb.WriteString(">")
			if !keyString(v.V, sb) {
				return false
			}
		}
	case RType:
		fmt.Fprintf(sb, "T<%s>;", v.T.String())
	default:
		fmt.Fprintf(sb, "?%T%p;", v, v)
	}
	return true
}

func (m *Machine) mapFind(mp *Map, key Value) *mapEntry {
	var sb strings.Builder
	if keyString(key, &sb) {
		if e, ok := mp.idx[sb.String()]; ok && !e.deleted {
			return e
		}
		if mp.nsym == 0 {
			return nil
		}
	}
	// symbolic comparison against every live entry
	kt := mp.typ.Key()
	for _, e := range mp.entries {
		if e.deleted {
			continue
		}
		eq := m.equals(nil, kt, key, e.key)
		if eq.IsFalse() {
			continue
		}
		if eq.IsTrue() || m.Branch(eq) {
			return e
		}
	}
	return nil
}

func (m *Machine) mapSet(mp *Map, key, val Value) {
	if e := m.mapFind(mp, key); e != nil {
		old := e.val
		e.val = val
		m.logUndo(func() { e.val = old })
		return
	}
	e := &mapEntry{key: key, val: val}
	var sb strings.Builder
	if keyString(key, &sb) {
		e.conc = true
		e.ck = sb.String()
		prev, had := mp.idx[e.ck]
		mp.idx[e.ck] = e
		m.logUndo(func() {
			if had {
				mp.idx[e.ck] = prev
			} else {
				delete(mp.idx, e.ck)
			}
		})
	} else {
		mp.nsym++
		m.logUndo(func() { mp.nsym-- })
	}
	mp.entries = append(mp.entries, e)
	n := len(mp.entries)
	m.logUndo(func() { mp.entries = mp.entries[:n-1] })
}

func (m *Machine) mapDelete(mp *Map, key Value) {
	e := m.mapFind(mp, key)
	if e == nil {
		return
	}
	e.deleted = true
	if !e.conc {
		mp.nsym--
	}
	// compact lazily: rebuild entries without deleted ones
	oldEntries := mp.entries
	var ne []*mapEntry
	for _, x := range mp.entries {
		if !x.deleted {
			ne = append(ne, x)
		}
	}
	mp.entries = ne
	var prev *mapEntry
	had := false
	if e.conc {
		prev, had = mp.idx[e.ck]
		if prev == e {
			delete(mp.idx, e.ck)
		}
	}
	m.logUndo(func() {
		e.deleted = false
		if !e.conc {
			mp.nsym++
		}
		mp.entries = oldEntries
		if e.conc && had {
			mp.idx[e.ck] = prev
		}
	})
}

func (m *Machine) mapClear(mp *Map) {
	oldE, oldI, oldN := mp.entries, mp.idx, mp.nsym
	for _, e := range oldE {
		e := e
		if !e.deleted {
			e.deleted = true
			m.logUndo(func() { e.deleted = false })
		}
	}
	mp.entries, mp.idx, mp.nsym = nil, map[string]*mapEntry{}, 0
	m.logUndo(func() { mp.entries, mp.idx, mp.nsym = oldE, oldI, oldN })
}

func (mp *Map) Len() int {
	if mp == nil {
		return 0
	}
	return len(mp.entries)
}
