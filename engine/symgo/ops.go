package symgo

import (
	"fmt"
	"go/token"
	"go/types"
	"math"
	"strings"
	"unicode/utf8"

	"golang.org/x/tools/go/ssa"
)

func basicOf(t types.Type) *types.Basic {
	b, _ := t.Underlying().(*types.Basic)
	return b
}

func isSigned(t types.Type) bool {
	if b := basicOf(t); b != nil {
		_, s, _ := intWidth(b)
		return s
	}
	return false
}

func (m *Machine) unop(fr *Frame, ins *ssa.UnOp, x Value) Value {
	switch ins.Op {
	case token.MUL: // load
		p, ok := x.(*Value)
		if !ok {
			panic(engineBug{fmt.Sprintf("load from %T in %s", x, fr.fn)})
		}
		return m.load(fr, p)
	case token.ARROW:
		v, ok := m.chanRecv(fr, x.(*Chan), ins.X.Type().Underlying().(*types.Chan).Elem())
		if ins.CommaOk {
			return Tuple{v, Bool(ok)}
		}
		return v
	case token.NOT:
		return Not(x.(*Term))
	case token.SUB:
		switch x := x.(type) {
		case *Term:
			return Neg(x)
		case float64:
			return -x
		case complex128:
			return -x
		}
	case token.XOR:
		return BNot(x.(*Term))
	}
	panic(engineBug{fmt.Sprintf("unop %v on %T", ins.Op, x)})
}

func (m *Machine) binop(fr *Frame, op token.Token, t types.Type, x, y Value) Value {
	switch xv := x.(type) {
	case *Term:
		yt, ok := y.(*Term)
		if !ok {
			break
		}
		if xv.W == 0 {
			switch op {
			case token.EQL:
				return Eq(xv, yt)
			case token.NEQ:
				return Not(Eq(xv, yt))
			case token.LAND, token.AND:
				return And(xv, yt)
			case token.LOR, token.OR:
				return Or(xv, yt)
			}
			break
		}
		signed := isSigned(t)
		switch op {
		case token.ADD:
			return BinBV(OpAdd, xv, yt)
		case token.SUB:
			return BinBV(OpSub, xv, yt)
		case token.MUL:
			return BinBV(OpMul, xv, yt)
		case token.QUO, token.REM:
			if !yt.IsConst() {
				if m.Branch(Eq(yt, Const(yt.W, 0))) {
					m.runtimePanic(fr, "divide by zero", "integer divide by zero")
				}
			} else if yt.Val == 0 {
				m.runtimePanic(fr, "divide by zero", "integer divide by zero")
			}
			if op == token.QUO {
				if signed {
					return BinBV(OpSDiv, xv, yt)
				}
				return BinBV(OpUDiv, xv, yt)
			}
			if signed {
				return BinBV(OpSRem, xv, yt)
			}
			return BinBV(OpURem, xv, yt)
		case token.AND:
			return BinBV(OpBAnd, xv, yt)
		case token.OR:
			return BinBV(OpBOr, xv, yt)
		case token.XOR:
			return BinBV(OpBXor, xv, yt)
		case token.AND_NOT:
			return BinBV(OpBAnd, xv, BNot(yt))
		case token.SHL, token.SHR:
			return m.shift(fr, op, xv, yt, signed)
		case token.EQL:
			return Eq(xv, yt)
		case token.NEQ:
			return Not(Eq(xv, yt))
		case token.LSS:
			if signed {
				return Slt(xv, yt)
			}
			return Ult(xv, yt)
		case token.LEQ:
			if signed {
				return Sle(xv, yt)
			}
			return Ule(xv, yt)
		case token.GTR:
			if signed {
				return Slt(yt, xv)
			}
			return Ult(yt, xv)
		case token.GEQ:
			if signed {
				return Sle(yt, xv)
			}
			return Ule(yt, xv)
		}
	case float64:
		yf := y.(float64)
		if b := basicOf(t); b != nil && b.Kind() == types.Float32 {
			switch op {
			case token.ADD:
				return float64(float32(xv) + float32(yf))
			case token.SUB:
				return float64(float32(xv) - float32(yf))
			case token.MUL:
				return float64(float32(xv) * float32(yf))
			case token.QUO:
				return float64(float32(xv) / float32(yf))
			}
		}
		switch op {
		case token.ADD:
			return xv + yf
		case token.SUB:
			return xv - yf
		case token.MUL:
			return xv * yf
		case token.QUO:
			return xv / yf
		case token.EQL:
			return Bool(xv == yf)
		case token.NEQ:
			return Bool(xv != yf)
		case token.LSS:
			return Bool(xv < yf)
		case token.LEQ:
			return Bool(xv <= yf)
		case token.GTR:
			return Bool(xv > yf)
		case token.GEQ:
			return Bool(xv >= yf)
		}
	case string, SymStr:
		switch op {
		case token.ADD:
			if xs, ok := x.(string); ok {
				if ys, ok := y.(string); ok {
					return xs + ys
				}
			}
			return mkStr(append(append([]*Term{}, strBytes(x)...), strBytes(y)...))
		case token.EQL:
			return strEq(x, y)
		case token.NEQ:
			return Not(strEq(x, y))
		case token.LSS:
			return strLess(x, y, false)
		case token.LEQ:
			return strLess(x, y, true)
		case token.GTR:
			return strLess(y, x, false)
		case token.GEQ:
			return strLess(y, x, true)
		}
	}
	switch op {
	case token.EQL:
		return m.equals(fr, t, x, y)
	case token.NEQ:
		return Not(m.equals(fr, t, x, y))
	}
	panic(engineBug{fmt.Sprintf("binop %v on %T,%T (%v) in %v", op, x, y, t, fr.fn)})
}

func (m *Machine) shift(fr *Frame, op token.Token, x, cnt *Term, signed bool) Value {
	w := x.W
	// negative signed shift counts panic in Go; shift counts here are treated as unsigned
	// (the compiler proves non-negativity or inserts a check that SSA does not show):
	// a symbolic negative count behaves as a huge unsigned count.
	var c *Term
	var big *Term // condition: count >= w
	if cnt.W > w {
		big = Ule(Const(cnt.W, uint64(w)), cnt)
		c = Extract(cnt, w-1, 0)
	} else {
		c = ZExt(cnt, w)
		if w > 1 && uint64(w) <= mask(cnt.W) {
			big = Ule(Const(w, uint64(w)), c)
		} else {
			big = FalseT
		}
	}
	switch op {
	case token.SHL:
		return Ite(big, Const(w, 0), BinBV(OpShl, x, c))
	default:
		if signed {
			fill := BinBV(OpAShr, x, Const(w, uint64(w-1)))
			return Ite(big, fill, BinBV(OpAShr, x, c))
		}
		return Ite(big, Const(w, 0), BinBV(OpLShr, x, c))
	}
}

func strEq(x, y Value) *Term {
	if xs, ok := x.(string); ok {
		if ys, ok := y.(string); ok {
			return Bool(xs == ys)
		}
	}
	xb, yb := strBytes(x), strBytes(y)
	if len(xb) != len(yb) {
		return FalseT
	}
	r := TrueT
	for i := range xb {
		r = And(r, Eq(xb[i], yb[i]))
	}
	return r
}

func bytesEqTerm(xb, yb []*Term) *Term {
	if len(xb) != len(yb) {
		return FalseT
	}
	r := TrueT
	for i := range xb {
		r = And(r, Eq(xb[i], yb[i]))
	}
	return r
}

// strLess: lexicographic x < y (or <= if orEq).
func strLess(x, y Value, orEq bool) *Term {
	if xs, ok := x.(string); ok {
		if ys, ok := y.(string); ok {
			if orEq {
				return Bool(xs <= ys)
			}
			return Bool(xs < ys)
		}
	}
	return bytesLess(strBytes(x), strBytes(y), orEq)
}

func bytesLess(xb, yb []*Term, orEq bool) *Term {
	n := len(xb)
	if len(yb) < n {
		n = len(yb)
	}
	var tail *Term
	if len(xb) < len(yb) || (orEq && len(xb) == len(yb)) {
		tail = TrueT
	} else {
		tail = FalseT
	}
	r := tail
	for i := n - 1; i >= 0; i-- {
		r = Or(Ult(xb[i], yb[i]), And(Eq(xb[i], yb[i]), r))
	}
	return r
}

// equals builds the (possibly symbolic) equality of two values of static type t.
func (m *Machine) equals(fr *Frame, t types.Type, x, y Value) *Term {
	switch xv := x.(type) {
	case nil:
		return Bool(y == nil)
	case *Term:
		return Eq(xv, y.(*Term))
	case float64:
		return Bool(xv == y.(float64))
	case complex128:
		return Bool(xv == y.(complex128))
	case string, SymStr:
		return strEq(x, y)
	case *Value:
		yp, ok := y.(*Value)
		return Bool(ok && xv == yp)
	case *Map:
		return Bool(xv == y.(*Map))
	case *Chan:
		return Bool(xv == y.(*Chan))
	case Slice:
		// only comparison with nil is legal
		ys := y.(Slice)
		if xv.A == nil || ys.A == nil {
			return Bool(xv.A == nil && ys.A == nil)
		}
		panic(engineBug{"slice comparison"})
	case *ssa.Function:
		if yf, ok := y.(*ssa.Function); ok {
			return Bool(xv == yf)
		}
		return Bool(xv == nil && y == nil)
	case *Closure:
		if yf, ok := y.(*ssa.Function); ok && yf == nil {
			return FalseT
		}
		return Bool(x == y)
	case *Native:
		return Bool(x == y)
	case Struct:
		ys := y.(Struct)
		r := TrueT
		var st *types.Struct
		if t != nil {
			st, _ = t.Underlying().(*types.Struct)
		}
		for i := range xv {
			var ft types.Type
			if st != nil {
				if st.Field(i).Name() == "_" {
					continue
				}
				ft = st.Field(i).Type()
			}
			r = And(r, m.equals(fr, ft, xv[i], ys[i]))
			if r.IsFalse() {
				return r
			}
		}
		return r
	case Array:
		ya := y.(Array)
		r := TrueT
		var et types.Type
		if t != nil {
			if at, ok := t.Underlying().(*types.Array); ok {
				et = at.Elem()
			}
		}
		for i := range xv {
			r = And(r, m.equals(fr, et, xv[i], ya[i]))
			if r.IsFalse() {
				return r
			}
		}
		return r
	case Iface:
		yi := y.(Iface)
		if xv.T == nil || yi.T == nil {
			return Bool(xv.T == nil && yi.T == nil)
		}
		if !types.Identical(xv.T, yi.T) {
			return FalseT
		}
		if !types.Comparable(xv.T) {
			if _, ok := m.isNativeType(xv.T); ok {
				return Bool(xv.V == yi.V)
			}
			site, _ := m.where(fr)
			panic(TargetPanic{V: Iface{T: m.runtimeErrT, V: "comparing uncomparable type " + xv.T.String()}, Site: site, Kind: "runtime: uncomparable", Stack: m.stack(fr)})
		}
		return m.equals(fr, xv.T, xv.V, yi.V)
	case RType:
		yr, ok := y.(RType)
		return Bool(ok && types.Identical(xv.T, yr.T))
	case BigInt:
		panic(engineBug{"big.Int struct comparison"})
	}
	if x == y {
		return TrueT
	}
	panic(engineBug{fmt.Sprintf("equals: %T vs %T", x, y)})
}

// ---------- conversions ----------

func (m *Machine) conv(fr *Frame, tdst, tsrc types.Type, x Value) Value {
	ud, us := tdst.Underlying(), tsrc.Underlying()
	// type parameters: core type
	if tp, ok := ud.(*types.TypeParam); ok {
		_ = tp
		panic(engineBug{"conv to type parameter"})
	}
	switch us := us.(type) {
	case *types.Pointer:
		switch ud := ud.(type) {
		case *types.Basic:
			if ud.Kind() == types.UnsafePointer {
				return x
			}
		case *types.Pointer:
			return x
		}
	case *types.Slice:
		switch ud := ud.(type) {
		case *types.Basic:
			if ud.Info()&types.IsString != 0 {
				s := x.(Slice)
				eb := basicOf(us.Elem())
				if eb != nil && eb.Kind() == types.Uint8 {
					return mkStr(bytesOf(s))
				}
				// []rune -> string (concrete only)
				var sb strings.Builder
				for _, c := range s.A {
					ct := c.(*Term)
					if !ct.IsConst() {
						unsupported("string([]rune) with symbolic runes")
					}
					sb.WriteRune(rune(int32(ct.Val)))
				}
				return sb.String()
			}
		case *types.Slice:
			return x
		case *types.Array:
			s := x.(Slice)
			n := int(ud.Len())
			if len(s.A) < n {
				m.runtimePanic(fr, "slice to array", fmt.Sprintf("cannot convert slice with length %d to array or pointer to array with length %d", len(s.A), n))
			}
			a := make(Array, n)
			for i := range a {
				a[i] = copyVal(s.A[i])
			}
			return a
		case *types.Pointer:
			s := x.(Slice)
			n := int(ud.Elem().Underlying().(*types.Array).Len())
			if len(s.A) < n {
				m.runtimePanic(fr, "slice to array", "cannot convert slice to array pointer")
			}
			var cell Value = ArrayView{A: s.A[:n:n]}
			return &cell
		}
	case *types.Basic:
		switch ud := ud.(type) {
		case *types.Basic:
			return m.convBasic(fr, ud, us, x)
		case *types.Slice:
			// string -> []byte / []rune
			eb := basicOf(ud.Elem())
			if eb != nil && eb.Kind() == types.Uint8 {
				return mkByteSlice(strBytes(x))
			}
			s, ok := x.(string)
			if !ok {
				unsupported("[]rune(symbolic string)")
			}
			var a []Value
			for _, r := range s {
				a = append(a, Const(32, uint64(uint32(r))))
			}
			if a == nil {
				a = []Value{}
			}
			return Slice{A: a}
		case *types.Pointer:
			if us.Kind() == types.UnsafePointer {
				return x
			}
		}
	case *types.Signature, *types.Map, *types.Chan, *types.Struct, *types.Array, *types.Interface:
		return x
	}
	panic(engineBug{fmt.Sprintf("conv %v -> %v (%T)", tsrc, tdst, x)})
}

func (m *Machine) convBasic(fr *Frame, ud, us *types.Basic, x Value) Value {
	if ud.Kind() == types.UnsafePointer || us.Kind() == types.UnsafePointer {
		if ud.Kind() == us.Kind() {
			return x
		}
		unsupported("uintptr <-> unsafe.Pointer conversion")
	}
	dw, dsigned, dint := intWidth(ud)
	_, ssigned, sint := intWidth(us)
	switch {
	case dint && sint:
		t := x.(*Term)
		if dw == 0 || t.W == 0 {
			return t
		}
		return Resize(t, dw, ssigned)
	case dint: // float -> int
		f, ok := x.(float64)
		if !ok {
			break
		}
		if dsigned {
			return Const(dw, uint64(int64(f)))
		}
		return Const(dw, uint64(f))
	case sint && ud.Info()&types.IsFloat != 0:
		t := x.(*Term)
		if !t.IsConst() {
			unsupported("int -> float conversion of a symbolic value")
		}
		var f float64
		if ssigned {
			f = float64(signExt(t.Val, t.W))
		} else {
			f = float64(t.Val)
		}
		if ud.Kind() == types.Float32 {
			f = float64(float32(f))
		}
		return f
	case sint && ud.Info()&types.IsString != 0:
		t := x.(*Term)
		if !t.IsConst() {
			unsupported("string(rune) of a symbolic value")
		}
		return string(rune(signExt(t.Val, t.W)))
	case ud.Info()&types.IsFloat != 0 && us.Info()&types.IsFloat != 0:
		f := x.(float64)
		if ud.Kind() == types.Float32 {
			f = float64(float32(f))
		}
		return f
	case ud.Info()&types.IsString != 0 && us.Info()&types.IsString != 0:
		return x
	case ud.Info()&types.IsComplex != 0:
		return x
	}
	panic(engineBug{fmt.Sprintf("convBasic %v -> %v (%T)", us, ud, x)})
}

// ---------- concretisation helpers ----------

// concInt returns the concrete value of t (forking if symbolic), as signed int64.
func (m *Machine) concInt(t *Term, what string) int64 {
	if t.IsConst() {
		return signExt(t.Val, t.W)
	}
	v := m.Concretize(t, what)
	return signExt(v, t.W)
}

func (m *Machine) concLen(fr *Frame, t *Term, what string) int {
	var v int64
	if t.IsConst() {
		v = signExt(t.Val, t.W)
	} else {
		v = signExt(m.ConcretizeLen(t, what), t.W)
	}
	if v > 1<<24 {
		// a huge concrete allocation would exhaust the engine itself: record it
		// as an allocation event and stop the path.
		m.noteHugeAlloc(fr, v, what)
	}
	return int(v)
}

// ---------- slices, arrays, indexing ----------

func (m *Machine) makeSlice(fr *Frame, elem types.Type, ln, cp int) Slice {
	m.noteAlloc(fr, int64(cp)*m.sizeof(elem))
	return m.makeSliceNoNote(elem, ln, cp)
}

func (m *Machine) makeSliceNoNote(elem types.Type, ln, cp int) Slice {
	a := make([]Value, cp)
	if cp > 0 {
		z := m.zero(elem)
		switch z.(type) {
		case Struct, Array:
			for i := range a {
				a[i] = m.zero(elem)
			}
		default:
			for i := range a {
				a[i] = z
			}
		}
	}
	return Slice{A: a[:ln]}
}

func (m *Machine) sizeof(t types.Type) int64 {
	defer func() { recover() }()
	return types.SizesFor("gc", "amd64").Sizeof(t)
}

func (m *Machine) sliceOp(fr *Frame, ins *ssa.Slice) Value {
	x := fr.get(ins.X)
	var lo, hi, max *Term
	if ins.Low != nil {
		lo = fr.get(ins.Low).(*Term)
	}
	if ins.High != nil {
		hi = fr.get(ins.High).(*Term)
	}
	if ins.Max != nil {
		max = fr.get(ins.Max).(*Term)
	}
	var length, capacity int
	var arr []Value
	var str Value
	isNilSlice := false
	switch xv := x.(type) {
	case Slice:
		arr = xv.A
		length, capacity = len(xv.A), cap(xv.A)
		isNilSlice = xv.A == nil
	case *Value: // *array
		if xv == nil {
			m.runtimePanic(fr, "nil dereference", "invalid memory address or nil pointer dereference")
		}
		switch a := (*xv).(type) {
		case Array:
			arr = []Value(a)
		case ArrayView:
			arr = a.A
		default:
			panic(engineBug{fmt.Sprintf("slice of *%T", *xv)})
		}
		length, capacity = len(arr), len(arr)
	case string, SymStr:
		str = x
		length = strLen(x)
		capacity = length
	default:
		panic(engineBug{fmt.Sprintf("slice of %T", x)})
	}
	l, h, mx := 0, length, capacity
	// Go checks: 0 <= lo <= hi <= max <= cap
	bound := capacity
	if str != nil {
		bound = length
	}
	if max != nil {
		mx = m.boundedIndex(fr, max, bound, "slice max")
		bound = mx
	}
	if hi != nil {
		h = m.boundedIndex(fr, hi, bound, "slice high")
	} else if str == nil {
		h = length
	}
	if lo != nil {
		l = m.boundedIndex(fr, lo, h, "slice low")
	}
	if str != nil {
		if s, ok := str.(string); ok {
			return s[l:h]
		}
		return mkStr(str.(SymStr)[l:h])
	}
	if isNilSlice {
		return Slice{}
	}
	if arr == nil {
		arr = []Value{}
	}
	return Slice{A: arr[l:h:mx]}
}

// boundedIndex concretises idx and panics (interpreted) unless 0 <= idx <= limit.
func (m *Machine) boundedIndex(fr *Frame, idx *Term, limit int, what string) int {
	if idx.IsConst() {
		v := signExt(idx.Val, idx.W)
		if v < 0 || v > int64(limit) {
			m.runtimePanic(fr, "slice bounds out of range", fmt.Sprintf("slice bounds out of range [%d] with limit %d", v, limit))
		}
		return int(v)
	}
	// symbolic: in range?
	in := Ule(idx, Const(idx.W, uint64(limit)))
	if !m.Branch(in) {
		m.runtimePanic(fr, "slice bounds out of range", "slice bounds out of range (symbolic)")
	}
	return int(m.ConcretizeLen(idx, what))
}

func (m *Machine) checkIndex(fr *Frame, idx *Term, n int) (int, bool) {
	if idx.IsConst() {
		v := signExt(idx.Val, idx.W)
		if v < 0 || v >= int64(n) {
			m.runtimePanic(fr, "index out of range", fmt.Sprintf("index out of range [%d] with length %d", v, n))
		}
		return int(v), true
	}
	in := Ult(idx, Const(idx.W, uint64(n)))
	if n == 0 || !m.Branch(in) {
		m.runtimePanic(fr, "index out of range", fmt.Sprintf("index out of range [symbolic] with length %d", n))
	}
	return 0, false
}

func (m *Machine) indexAddr(fr *Frame, ins *ssa.IndexAddr) Value {
	x := fr.get(ins.X)
	idx := fr.get(ins.Index).(*Term)
	var arr []Value
	switch xv := x.(type) {
	case Slice:
		arr = xv.A
	case *Value:
		if xv == nil {
			m.runtimePanic(fr, "nil dereference", "invalid memory address or nil pointer dereference")
		}
		switch a := (*xv).(type) {
		case Array:
			arr = a
		case ArrayView:
			arr = a.A
		default:
			panic(engineBug{fmt.Sprintf("IndexAddr on *%T", *xv)})
		}
	default:
		panic(engineBug{fmt.Sprintf("IndexAddr on %T", x)})
	}
	i, conc := m.checkIndex(fr, idx, len(arr))
	if !conc {
		i = int(m.Concretize(idx, "index address"))
	}
	return &arr[i]
}

func (m *Machine) index(fr *Frame, ins *ssa.Index) Value {
	x := fr.get(ins.X)
	idx := fr.get(ins.Index).(*Term)
	switch xv := x.(type) {
	case Array:
		i, conc := m.checkIndex(fr, idx, len(xv))
		if conc {
			return copyVal(xv[i])
		}
		return m.symSelect(idx, []Value(xv))
	case string:
		i, conc := m.checkIndex(fr, idx, len(xv))
		if conc {
			return Const(8, uint64(xv[i]))
		}
		vals := make([]Value, len(xv))
		for k := range vals {
			vals[k] = Const(8, uint64(xv[k]))
		}
		return m.symSelect(idx, vals)
	case SymStr:
		i, conc := m.checkIndex(fr, idx, len(xv))
		if conc {
			return xv[i]
		}
		vals := make([]Value, len(xv))
		for k := range vals {
			vals[k] = xv[k]
		}
		return m.symSelect(idx, vals)
	}
	panic(engineBug{fmt.Sprintf("Index on %T", x)})
}

// symSelect reads cells[idx] for a symbolic in-range idx: ite chain for scalars,
// otherwise concretise.
func (m *Machine) symSelect(idx *Term, cells []Value) Value {
	allScalar := true
	for _, c := range cells {
		if _, ok := c.(*Term); !ok {
			allScalar = false
			break
		}
	}
	if !allScalar || len(cells) > 512 {
		i := int(m.Concretize(idx, "index"))
		return copyVal(cells[i])
	}
	r := cells[len(cells)-1].(*Term)
	for i := len(cells) - 2; i >= 0; i-- {
		r = Ite(Eq(idx, Const(idx.W, uint64(i))), cells[i].(*Term), r)
	}
	return r
}

func (m *Machine) lookup(fr *Frame, ins *ssa.Lookup) Value {
	x := fr.get(ins.X)
	switch xv := x.(type) {
	case *Map:
		key := fr.get(ins.Index)
		var v Value
		ok := false
		if xv != nil {
			if e := m.mapFind(xv, key); e != nil {
				v, ok = copyVal(e.val), true
			}
		}
		if !ok {
			v = m.zero(ins.X.Type().Underlying().(*types.Map).Elem())
		}
		if ins.CommaOk {
			return Tuple{v, Bool(ok)}
		}
		return v
	case string, SymStr:
		// string index via Lookup
		idx := fr.get(ins.Index).(*Term)
		bs := strBytes(x)
		i, conc := m.checkIndex(fr, idx, len(bs))
		if conc {
			return bs[i]
		}
		vals := make([]Value, len(bs))
		for k := range vals {
			vals[k] = bs[k]
		}
		return m.symSelect(idx, vals)
	}
	panic(engineBug{fmt.Sprintf("Lookup on %T", x)})
}

// ---------- builtins ----------

func (m *Machine) callBuiltin(fr *Frame, fn *ssa.Builtin, args []Value, pos token.Pos) Value {
	switch fn.Name() {
	case "append":
		if len(args) == 1 {
			return args[0]
		}
		var add []Value
		switch y := args[1].(type) {
		case Slice:
			add = y.A
		case string, SymStr:
			for _, b := range strBytes(y) {
				add = append(add, b)
			}
		}
		x := args[0].(Slice)
		if len(add) == 0 {
			return x
		}
		n := len(x.A)
		if n+len(add) <= cap(x.A) {
			r := x.A[:n+len(add)]
			for i, v := range add {
				m.store(&r[n+i], copyVal(v))
			}
			return Slice{A: r}
		}
		newCap := 2 * cap(x.A)
		if newCap < n+len(add) {
			newCap = n + len(add)
		}
		{
			esz := int64(8)
			if st, ok := fn.Type().(*types.Signature).Params().At(0).Type().Underlying().(*types.Slice); ok {
				esz = m.sizeof(st.Elem())
			}
			m.noteAlloc(fr, int64(newCap)*esz)
		}
		r := make([]Value, n+len(add), newCap)
		copy(r, x.A)
		for i, v := range add {
			r[n+i] = copyVal(v)
		}
		// zero-fill spare capacity lazily is impossible with boxed cells: fill now
		if newCap > len(r) {
			et := fn.Type().(*types.Signature).Params().At(0).Type().Underlying().(*types.Slice).Elem()
			spare := r[len(r):newCap]
			z := m.zero(et)
			for i := range spare {
				switch z.(type) {
				case Struct, Array:
					spare[i] = m.zero(et)
				default:
					spare[i] = z
				}
			}
		}
		return Slice{A: r}
	case "copy":
		dst := args[0].(Slice)
		var src []Value
		switch y := args[1].(type) {
		case Slice:
			src = y.A
		case string, SymStr:
			for _, b := range strBytes(y) {
				src = append(src, b)
			}
		}
		n := len(dst.A)
		if len(src) < n {
			n = len(src)
		}
		// handle overlap like memmove
		tmp := make([]Value, n)
		for i := 0; i < n; i++ {
			tmp[i] = copyVal(src[i])
		}
		for i := 0; i < n; i++ {
			m.store(&dst.A[i], tmp[i])
		}
		return Const(64, uint64(n))
	case "close":
		m.chanClose(fr, args[0].(*Chan))
		return nil
	case "delete":
		if mp := args[0].(*Map); mp != nil {
			m.mapDelete(mp, args[1])
		}
		return nil
	case "print", "println":
		return nil
	case "len":
		switch x := args[0].(type) {
		case string:
			return Const(64, uint64(len(x)))
		case SymStr:
			return Const(64, uint64(len(x)))
		case Array:
			return Const(64, uint64(len(x)))
		case *Value:
			if x == nil {
				// len of nil *array is the array length: unknown here
				return Const(64, 0)
			}
			switch a := (*x).(type) {
			case Array:
				return Const(64, uint64(len(a)))
			case ArrayView:
				return Const(64, uint64(len(a.A)))
			}
		case Slice:
			return Const(64, uint64(len(x.A)))
		case *Map:
			if x == nil {
				return Const(64, 0)
			}
			return Const(64, uint64(len(x.entries)))
		case *Chan:
			if x == nil {
				return Const(64, 0)
			}
			return Const(64, uint64(len(x.buf)))
		}
		panic(engineBug{fmt.Sprintf("len of %T", args[0])})
	case "cap":
		switch x := args[0].(type) {
		case Array:
			return Const(64, uint64(len(x)))
		case *Value:
			switch a := (*x).(type) {
			case Array:
				return Const(64, uint64(len(a)))
			case ArrayView:
				return Const(64, uint64(len(a.A)))
			}
		case Slice:
			return Const(64, uint64(cap(x.A)))
		case *Chan:
			if x == nil {
				return Const(64, 0)
			}
			return Const(64, uint64(x.cap))
		}
		panic(engineBug{fmt.Sprintf("cap of %T", args[0])})
	case "min", "max":
		isMax := fn.Name() == "max"
		r := args[0]
		for _, a := range args[1:] {
			switch rv := r.(type) {
			case *Term:
				at := a.(*Term)
				signed := isSigned(fn.Type().(*types.Signature).Params().At(0).Type())
				lt := Ult
				if signed {
					lt = Slt
				}
				if isMax {
					r = Ite(lt(rv, at), at, rv)
				} else {
					r = Ite(lt(at, rv), at, rv)
				}
			case float64:
				if isMax {
					r = math.Max(rv, a.(float64))
				} else {
					r = math.Min(rv, a.(float64))
				}
			case string:
				as, ok := a.(string)
				if !ok {
					unsupported("min/max on symbolic strings")
				}
				if (isMax && as > rv) || (!isMax && as < rv) {
					r = as
				}
			default:
				unsupported("min/max on %T", r)
			}
		}
		return r
	case "clear":
		switch x := args[0].(type) {
		case *Map:
			if x != nil {
				m.mapClear(x)
			}
		case Slice:
			et := fn.Type().(*types.Signature).Params().At(0).Type().Underlying().(*types.Slice).Elem()
			for i := range x.A {
				m.store(&x.A[i], m.zero(et))
			}
		}
		return nil
	case "panic":
		site, _ := m.where(fr)
		panic(TargetPanic{V: args[0], Site: site, Kind: "explicit", Stack: m.stack(fr)})
	case "recover":
		return m.doRecover(fr)
	case "ssa:wrapnilchk":
		recv := args[0]
		if p, ok := recv.(*Value); ok && p == nil {
			m.runtimePanic(fr, "nil dereference", fmt.Sprintf("value method %v.%v called using nil pointer", args[1], args[2]))
		}
		return recv
	case "ssa:deferstack":
		return &fr.defers
	case "SliceData":
		s := args[0].(Slice)
		return dataPtr{A: s.A}
	case "StringData":
		return dataPtr{S: args[0], isStr: true}
	case "String":
		dp, ok := args[0].(dataPtr)
		n := int(m.concInt(args[1].(*Term), "unsafe.String len"))
		if !ok {
			if n == 0 {
				return ""
			}
			unsupported("unsafe.String on a plain pointer")
		}
		if dp.isStr {
			return mkStr(strBytes(dp.S)[:n])
		}
		return mkStr(bytesOf(Slice{A: dp.A[:n]}))
	case "Slice":
		dp, ok := args[0].(dataPtr)
		n := int(m.concInt(args[1].(*Term), "unsafe.Slice len"))
		if !ok {
			if p, isP := args[0].(*Value); isP && p == nil && n == 0 {
				return Slice{}
			}
			unsupported("unsafe.Slice on a plain pointer")
		}
		if dp.isStr {
			return mkByteSlice(strBytes(dp.S)[:n])
		}
		return Slice{A: dp.A[:n:n]}
	case "real", "imag", "complex":
		unsupported("complex builtins")
	}
	panic(engineBug{"unknown builtin " + fn.Name()})
}

func (m *Machine) doRecover(caller *Frame) Value {
	// recover() has effect only when called directly by a deferred function
	// while the deferring function is panicking.
	if caller != nil && !caller.panicking && caller.caller != nil && caller.caller.panicking {
		caller.caller.panicking = false
		p := caller.caller.panicVal
		caller.caller.panicVal = nil
		if tp, ok := p.(TargetPanic); ok {
			if m.P != nil {
				m.P.Recovered = append(m.P.Recovered, tp.Kind+" in "+tp.Site)
			}
			return tp.V
		}
		panic(engineBug{fmt.Sprintf("recover of %T", p)})
	}
	return Iface{}
}

// dataPtr is the result of unsafe.SliceData / unsafe.StringData.
type dataPtr struct {
	A     []Value
	S     Value
	isStr bool
}

// ---------- iteration ----------

type iterator interface {
	next(m *Machine) Value
}

type strIter struct {
	s   string
	pos int
}

func (it *strIter) next(m *Machine) Value {
	if it.pos >= len(it.s) {
		return Tuple{FalseT, Const(64, 0), Const(32, 0)}
	}
	r, sz := utf8.DecodeRuneInString(it.s[it.pos:])
	k := it.pos
	it.pos += sz
	return Tuple{TrueT, Const(64, uint64(k)), Const(32, uint64(uint32(r)))}
}

type mapIter struct {
	mp      *Map
	keys    []*mapEntry
	pos     int
}

func (it *mapIter) next(m *Machine) Value {
	for it.pos < len(it.keys) {
		e := it.keys[it.pos]
		it.pos++
		if e.deleted {
			continue
		}
		return Tuple{TrueT, copyVal(e.key), copyVal(e.val)}
	}
	return Tuple{FalseT, nil, nil}
}

func (m *Machine) rangeIter(fr *Frame, x Value, t types.Type) Value {
	switch xv := x.(type) {
	case string:
		return &strIter{s: xv}
	case SymStr:
		// treat bytes < 0x80 only when concrete; symbolic: require ASCII by assumption
		unsupported("range over symbolic string")
	case *Map:
		it := &mapIter{mp: xv}
		if xv != nil {
			it.keys = append(it.keys, xv.entries...)
		}
		return it
	}
	panic(engineBug{fmt.Sprintf("range over %T", x)})
}
