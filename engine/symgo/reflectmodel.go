package symgo

// Native model of package reflect over engine values and go/types types.

import (
	"fmt"
	"go/types"
	"reflect"
	"strings"
)

// RV is reflect.Value.
type RV struct {
	T    types.Type // nil: the zero (invalid) Value
	P    *Value     // location, when addressable
	V    Value      // value, when not addressable
	Addr bool
	RO   bool
}

// RType is the dynamic value held inside a reflect.Type interface.
type RType struct{ T types.Type }

func (rv RV) get() Value {
	if rv.Addr {
		if av, ok := (*rv.P).(ArrayView); ok {
			c := make(Array, len(av.A))
			for i := range c {
				c[i] = av.A[i]
			}
			return c
		}
		return *rv.P
	}
	return rv.V
}

func (m *Machine) rtypeIface(t types.Type) Value {
	return Iface{T: m.nativeType("rtype"), V: RType{T: t}}
}

func kindOf(t types.Type) reflect.Kind {
	switch u := t.Underlying().(type) {
	case *types.Basic:
		switch u.Kind() {
		case types.Bool, types.UntypedBool:
			return reflect.Bool
		case types.Int, types.UntypedInt:
			return reflect.Int
		case types.Int8:
			return reflect.Int8
		case types.Int16:
			return reflect.Int16
		case types.Int32, types.UntypedRune:
			return reflect.Int32
		case types.Int64:
			return reflect.Int64
		case types.Uint:
			return reflect.Uint
		case types.Uint8:
			return reflect.Uint8
		case types.Uint16:
			return reflect.Uint16
		case types.Uint32:
			return reflect.Uint32
		case types.Uint64:
			return reflect.Uint64
		case types.Uintptr:
			return reflect.Uintptr
		case types.Float32:
			return reflect.Float32
		case types.Float64, types.UntypedFloat:
			return reflect.Float64
		case types.Complex64:
			return reflect.Complex64
		case types.Complex128:
			return reflect.Complex128
		case types.String, types.UntypedString:
			return reflect.String
		case types.UnsafePointer:
			return reflect.UnsafePointer
		}
	case *types.Pointer:
		return reflect.Pointer
	case *types.Struct:
		return reflect.Struct
	case *types.Slice:
		return reflect.Slice
	case *types.Array:
		return reflect.Array
	case *types.Map:
		return reflect.Map
	case *types.Interface:
		return reflect.Interface
	case *types.Signature:
		return reflect.Func
	case *types.Chan:
		return reflect.Chan
	}
	panic(engineBug{fmt.Sprintf("kindOf %v", t)})
}

func (m *Machine) reflectPanic(fr *Frame, msg string) {
	site, _ := m.where(fr)
	panic(TargetPanic{V: Iface{T: types.Typ[types.String], V: msg}, Site: site, Kind: "reflect: " + strings.SplitN(msg, ":", 2)[0], Stack: m.stack(fr)})
}

func (m *Machine) rvOf(v Value) RV {
	i := v.(Iface)
	if i.T == nil {
		return RV{}
	}
	return RV{T: i.T, V: i.V}
}

func kInt(k reflect.Kind) bool  { return k >= reflect.Int && k <= reflect.Int64 }
func kUint(k reflect.Kind) bool { return k >= reflect.Uint && k <= reflect.Uintptr }

func (m *Machine) rvIsNil(fr *Frame, rv RV) bool {
	if rv.T == nil {
		m.reflectPanic(fr, "reflect: call of reflect.Value.IsNil on zero Value")
	}
	switch v := rv.get().(type) {
	case *Value:
		return v == nil
	case Slice:
		return v.A == nil
	case *Map:
		return v == nil
	case Iface:
		return v.T == nil
	case *Chan:
		return v == nil
	case *Closure:
		return v == nil
	case nil:
		return true
	default:
		if isNilFunc(v) {
			return true
		}
		switch kindOf(rv.T) {
		case reflect.Func:
			return false
		}
		m.reflectPanic(fr, "reflect: call of reflect.Value.IsNil on "+kindOf(rv.T).String()+" Value")
	}
	return false
}

func isNilFunc(v Value) bool {
	if f, ok := v.(interface{ String() string }); ok {
		_ = f
	}
	switch f := v.(type) {
	case *Closure:
		return f == nil
	}
	return false
}

func (m *Machine) rvSet(fr *Frame, rv RV, x RV) {
	if !rv.Addr {
		m.reflectPanic(fr, "reflect: reflect.Value.Set using unaddressable value")
	}
	if rv.RO {
		m.reflectPanic(fr, "reflect: reflect.Value.Set using value obtained using unexported field")
	}
	if x.T == nil {
		m.reflectPanic(fr, "reflect: call of reflect.Value.Set on zero Value")
	}
	var val Value
	if _, isI := rv.T.Underlying().(*types.Interface); isI {
		if _, xI := x.T.Underlying().(*types.Interface); xI {
			val = x.get()
		} else {
			if !m.implements(x.T, rv.T.Underlying().(*types.Interface)) {
				m.reflectPanic(fr, fmt.Sprintf("reflect.Set: value of type %v is not assignable to type %v", x.T, rv.T))
			}
			val = Iface{T: x.T, V: copyVal(x.get())}
		}
	} else {
		if !types.AssignableTo(x.T, rv.T) && !types.Identical(x.T.Underlying(), rv.T.Underlying()) {
			m.reflectPanic(fr, fmt.Sprintf("reflect.Set: value of type %v is not assignable to type %v", x.T, rv.T))
		}
		if !types.AssignableTo(x.T, rv.T) {
			m.reflectPanic(fr, fmt.Sprintf("reflect.Set: value of type %v is not assignable to type %v", x.T, rv.T))
		}
		val = copyVal(x.get())
	}
	m.storeTo(rv.P, val)
}

func (m *Machine) structFieldValue(t types.Type, i int, index []int) Value {
	st := t.Underlying().(*types.Struct)
	f := st.Field(i)
	sfT := m.Prog.ImportedPackage("reflect").Type("StructField").Type()
	sst := sfT.Underlying().(*types.Struct)
	out := make(Struct, sst.NumFields())
	for k := 0; k < sst.NumFields(); k++ {
		switch sst.Field(k).Name() {
		case "Name":
			out[k] = f.Name()
		case "PkgPath":
			if f.Exported() || f.Pkg() == nil {
				out[k] = ""
			} else {
				out[k] = f.Pkg().Path()
			}
		case "Type":
			out[k] = m.rtypeIface(f.Type())
		case "Tag":
			out[k] = st.Tag(i)
		case "Offset":
			out[k] = Const(64, 0)
		case "Index":
			a := make([]Value, len(index))
			for j, x := range index {
				a[j] = Const(64, uint64(x))
			}
			out[k] = Slice{A: a}
		case "Anonymous":
			out[k] = Bool(f.Embedded())
		default:
			out[k] = m.zero(sst.Field(k).Type())
		}
	}
	return out
}

func (m *Machine) intArg(v Value, what string) int {
	return int(m.concInt(v.(*Term), what))
}

func (m *Machine) rvField(fr *Frame, rv RV, i int) RV {
	st, ok := rv.T.Underlying().(*types.Struct)
	if !ok {
		m.reflectPanic(fr, "reflect: call of reflect.Value.Field on "+kindOf(rv.T).String()+" Value")
	}
	if i < 0 || i >= st.NumFields() {
		m.reflectPanic(fr, "reflect: Field index out of range")
	}
	f := st.Field(i)
	r := RV{T: f.Type(), RO: rv.RO || !f.Exported()}
	if rv.Addr {
		s := (*rv.P).(Struct)
		r.P, r.Addr = &s[i], true
	} else {
		r.V = rv.V.(Struct)[i]
	}
	return r
}

func (m *Machine) rvElem(fr *Frame, rv RV) RV {
	if rv.T == nil {
		m.reflectPanic(fr, "reflect: call of reflect.Value.Elem on zero Value")
	}
	switch u := rv.T.Underlying().(type) {
	case *types.Pointer:
		p := rv.get().(*Value)
		if p == nil {
			return RV{}
		}
		return RV{T: u.Elem(), P: p, Addr: true, RO: rv.RO}
	case *types.Interface:
		i := rv.get().(Iface)
		if i.T == nil {
			return RV{}
		}
		return RV{T: i.T, V: i.V, RO: rv.RO}
	}
	m.reflectPanic(fr, "reflect: call of reflect.Value.Elem on "+kindOf(rv.T).String()+" Value")
	return RV{}
}

func (m *Machine) rvLen(fr *Frame, rv RV) int {
	switch v := rv.get().(type) {
	case Slice:
		return len(v.A)
	case Array:
		return len(v)
	case string:
		return len(v)
	case SymStr:
		return len(v)
	case *Map:
		return v.Len()
	case *Chan:
		if v == nil {
			return 0
		}
		return len(v.buf)
	case *Value:
		// pointer to array
		if pt, ok := rv.T.Underlying().(*types.Pointer); ok {
			if at, ok := pt.Elem().Underlying().(*types.Array); ok {
				return int(at.Len())
			}
		}
	}
	m.reflectPanic(fr, "reflect: call of reflect.Value.Len on "+kindOf(rv.T).String()+" Value")
	return 0
}

func (m *Machine) rvIndex(fr *Frame, rv RV, it *Term) RV {
	switch u := rv.T.Underlying().(type) {
	case *types.Slice:
		s := rv.get().(Slice)
		i, conc := m.checkIndexReflect(fr, it, len(s.A))
		if !conc {
			i = int(m.Concretize(it, "reflect index"))
		}
		return RV{T: u.Elem(), P: &s.A[i], Addr: true, RO: rv.RO}
	case *types.Array:
		if rv.Addr {
			var arr []Value
			switch a := (*rv.P).(type) {
			case Array:
				arr = a
			case ArrayView:
				arr = a.A
			}
			i, conc := m.checkIndexReflect(fr, it, len(arr))
			if !conc {
				i = int(m.Concretize(it, "reflect index"))
			}
			return RV{T: u.Elem(), P: &arr[i], Addr: true, RO: rv.RO}
		}
		a := rv.V.(Array)
		i, conc := m.checkIndexReflect(fr, it, len(a))
		if !conc {
			i = int(m.Concretize(it, "reflect index"))
		}
		return RV{T: u.Elem(), V: a[i], RO: rv.RO}
	case *types.Basic:
		if u.Info()&types.IsString != 0 {
			bs := strBytes(rv.get())
			i, conc := m.checkIndexReflect(fr, it, len(bs))
			if !conc {
				i = int(m.Concretize(it, "reflect index"))
			}
			return RV{T: types.Typ[types.Uint8], V: bs[i]}
		}
	}
	m.reflectPanic(fr, "reflect: call of reflect.Value.Index on "+kindOf(rv.T).String()+" Value")
	return RV{}
}

func (m *Machine) checkIndexReflect(fr *Frame, idx *Term, n int) (int, bool) {
	if idx.IsConst() {
		v := signExt(idx.Val, idx.W)
		if v < 0 || v >= int64(n) {
			m.reflectPanic(fr, "reflect: slice index out of range")
		}
		return int(v), true
	}
	if n == 0 || !m.Branch(Ult(idx, Const(idx.W, uint64(n)))) {
		m.reflectPanic(fr, "reflect: slice index out of range")
	}
	return 0, false
}

func (m *Machine) rvIsZero(fr *Frame, rv RV) *Term {
	if rv.T == nil {
		m.reflectPanic(fr, "reflect: call of reflect.Value.IsZero on zero Value")
	}
	return m.isZeroVal(fr, rv.T, rv.get())
}

func (m *Machine) isZeroVal(fr *Frame, t types.Type, v Value) *Term {
	switch x := v.(type) {
	case *Term:
		if x.W == 0 {
			return Not(x)
		}
		return Eq(x, Const(x.W, 0))
	case float64:
		return Bool(x == 0)
	case complex128:
		return Bool(x == 0)
	case string:
		return Bool(x == "")
	case SymStr:
		return Bool(len(x) == 0)
	case *Value:
		return Bool(x == nil)
	case Slice:
		return Bool(x.A == nil)
	case *Map:
		return Bool(x == nil)
	case *Chan:
		return Bool(x == nil)
	case Iface:
		return Bool(x.T == nil)
	case Struct:
		r := TrueT
		st := t.Underlying().(*types.Struct)
		for i := range x {
			r = And(r, m.isZeroVal(fr, st.Field(i).Type(), x[i]))
		}
		return r
	case Array:
		r := TrueT
		et := t.Underlying().(*types.Array).Elem()
		for i := range x {
			r = And(r, m.isZeroVal(fr, et, x[i]))
		}
		return r
	case *Closure:
		return Bool(x == nil)
	case BigInt:
		return Bool(x.T == nil && !x.Neg)
	case nil:
		return TrueT
	}
	if isNilFuncVal(v) {
		return TrueT
	}
	return FalseT
}

func isNilFuncVal(v Value) bool {
	switch f := v.(type) {
	case *Closure:
		return f == nil
	case *Native:
		return f == nil
	}
	rvv := reflect.ValueOf(v)
	return rvv.Kind() == reflect.Pointer && rvv.IsNil()
}

func (m *Machine) rvInterface(fr *Frame, rv RV) Value {
	if rv.T == nil {
		m.reflectPanic(fr, "reflect: call of reflect.Value.Interface on zero Value")
	}
	if rv.RO {
		m.reflectPanic(fr, "reflect.Value.Interface: cannot return value obtained from unexported field or method")
	}
	if _, ok := rv.T.Underlying().(*types.Interface); ok {
		return rv.get().(Iface)
	}
	return Iface{T: rv.T, V: copyVal(rv.get())}
}

func (m *Machine) rvConvert(fr *Frame, rv RV, t types.Type) RV {
	if rv.T == nil {
		m.reflectPanic(fr, "reflect: call of reflect.Value.Convert on zero Value")
	}
	if it, ok := t.Underlying().(*types.Interface); ok {
		if _, srcI := rv.T.Underlying().(*types.Interface); srcI {
			return RV{T: t, V: rv.get()}
		}
		if !m.implements(rv.T, it) {
			m.reflectPanic(fr, fmt.Sprintf("reflect.Value.Convert: value of type %v cannot be converted to type %v", rv.T, t))
		}
		return RV{T: t, V: Iface{T: rv.T, V: copyVal(rv.get())}}
	}
	if !types.ConvertibleTo(rv.T, t) {
		m.reflectPanic(fr, fmt.Sprintf("reflect.Value.Convert: value of type %v cannot be converted to type %v", rv.T, t))
	}
	return RV{T: t, V: m.conv(fr, t, rv.T, copyVal(rv.get()))}
}

func (m *Machine) deepEqual(fr *Frame, x, y Value, tx types.Type, depth int) *Term {
	if depth > 64 {
		unsupported("reflect.DeepEqual recursion too deep")
	}
	switch xv := x.(type) {
	case Iface:
		yi, ok := y.(Iface)
		if !ok {
			return FalseT
		}
		if xv.T == nil || yi.T == nil {
			return Bool(xv.T == nil && yi.T == nil)
		}
		if !types.Identical(xv.T, yi.T) {
			return FalseT
		}
		return m.deepEqual(fr, xv.V, yi.V, xv.T, depth+1)
	case *Value:
		yp := y.(*Value)
		if xv == nil || yp == nil {
			return Bool(xv == yp)
		}
		if xv == yp {
			return TrueT
		}
		var et types.Type
		if tx != nil {
			if pt, ok := tx.Underlying().(*types.Pointer); ok {
				et = pt.Elem()
			}
		}
		return m.deepEqual(fr, *xv, *yp, et, depth+1)
	case Slice:
		ys := y.(Slice)
		if (xv.A == nil) != (ys.A == nil) {
			return FalseT
		}
		if len(xv.A) != len(ys.A) {
			return FalseT
		}
		var et types.Type
		if tx != nil {
			if st, ok := tx.Underlying().(*types.Slice); ok {
				et = st.Elem()
			}
		}
		r := TrueT
		for i := range xv.A {
			r = And(r, m.deepEqual(fr, xv.A[i], ys.A[i], et, depth+1))
			if r.IsFalse() {
				return r
			}
		}
		return r
	case Array:
		ya := y.(Array)
		var et types.Type
		if tx != nil {
			if at, ok := tx.Underlying().(*types.Array); ok {
				et = at.Elem()
			}
		}
		r := TrueT
		for i := range xv {
			r = And(r, m.deepEqual(fr, xv[i], ya[i], et, depth+1))
		}
		return r
	case Struct:
		ys := y.(Struct)
		var st *types.Struct
		if tx != nil {
			st, _ = tx.Underlying().(*types.Struct)
		}
		r := TrueT
		for i := range xv {
			var ft types.Type
			if st != nil {
				ft = st.Field(i).Type()
			}
			r = And(r, m.deepEqual(fr, xv[i], ys[i], ft, depth+1))
			if r.IsFalse() {
				return r
			}
		}
		return r
	case *Map:
		ym := y.(*Map)
		if (xv == nil) != (ym == nil) {
			return FalseT
		}
		if xv.Len() != ym.Len() {
			return FalseT
		}
		r := TrueT
		for _, e := range xv.entries {
			o := m.mapFind(ym, e.key)
			if o == nil {
				return FalseT
			}
			r = And(r, m.deepEqual(fr, e.val, o.val, xv.typ.Elem(), depth+1))
		}
		return r
	case BigInt:
		yb := y.(BigInt)
		return bigEq(xv, yb)
	case *Closure:
		return Bool(xv == nil && isNilFuncVal(y))
	}
	return m.equals(fr, tx, x, y)
}

func registerReflect(m *Machine) {
	N := m.natives
	rvArg := func(v Value) RV { return v.(RV) }
	typArg := func(v Value) types.Type { return v.(Iface).V.(RType).T }

	N["reflect.ValueOf"] = func(m *Machine, fr *Frame, a []Value) Value { return m.rvOf(a[0]) }
	N["reflect.TypeOf"] = func(m *Machine, fr *Frame, a []Value) Value {
		i := a[0].(Iface)
		if i.T == nil {
			return Iface{}
		}
		return m.rtypeIface(i.T)
	}
	N["internal/reflectlite.TypeOf"] = N["reflect.TypeOf"]
	N["reflect.New"] = func(m *Machine, fr *Frame, a []Value) Value {
		t := typArg(a[0])
		cell := new(Value)
		*cell = m.zero(t)
		m.noteAlloc(fr, m.sizeof(t))
		return RV{T: types.NewPointer(t), V: cell}
	}
	N["reflect.Zero"] = func(m *Machine, fr *Frame, a []Value) Value {
		t := typArg(a[0])
		return RV{T: t, V: m.zero(t)}
	}
	N["reflect.MakeSlice"] = func(m *Machine, fr *Frame, a []Value) Value {
		t := typArg(a[0])
		ln := m.concLen(fr, a[1].(*Term), "reflect.MakeSlice len")
		cp := m.concLen(fr, a[2].(*Term), "reflect.MakeSlice cap")
		if ln < 0 || cp < ln {
			m.reflectPanic(fr, "reflect.MakeSlice: negative len or len > cap")
		}
		return RV{T: t, V: m.makeSlice(fr, t.Underlying().(*types.Slice).Elem(), ln, cp)}
	}
	N["reflect.MakeMap"] = func(m *Machine, fr *Frame, a []Value) Value {
		t := typArg(a[0])
		return RV{T: t, V: m.newMap(t.Underlying().(*types.Map))}
	}
	N["reflect.MakeMapWithSize"] = N["reflect.MakeMap"]
	N["reflect.Copy"] = func(m *Machine, fr *Frame, a []Value) Value {
		dst, src := rvArg(a[0]), rvArg(a[1])
		var d, s []Value
		switch x := dst.get().(type) {
		case Slice:
			d = x.A
		case Array:
			if !dst.Addr {
				m.reflectPanic(fr, "reflect.Copy: unaddressable array value")
			}
			d = (*dst.P).(Array)
		}
		switch x := src.get().(type) {
		case Slice:
			s = x.A
		case Array:
			s = x
		case string, SymStr:
			for _, b := range strBytes(x) {
				s = append(s, b)
			}
		}
		n := len(d)
		if len(s) < n {
			n = len(s)
		}
		for i := 0; i < n; i++ {
			m.store(&d[i], copyVal(s[i]))
		}
		return Const(64, uint64(n))
	}
	N["reflect.Append"] = func(m *Machine, fr *Frame, a []Value) Value {
		sv := rvArg(a[0])
		st, ok := sv.T.Underlying().(*types.Slice)
		if !ok {
			m.reflectPanic(fr, "reflect.Append: not a slice")
		}
		cur := sv.get().(Slice)
		out := cur
		for _, x := range a[1].(Slice).A {
			xv := x.(RV)
			var val Value
			if _, isI := st.Elem().Underlying().(*types.Interface); isI {
				if _, xI := xv.T.Underlying().(*types.Interface); xI {
					val = xv.get()
				} else {
					val = Iface{T: xv.T, V: copyVal(xv.get())}
				}
			} else {
				if !types.AssignableTo(xv.T, st.Elem()) {
					m.reflectPanic(fr, fmt.Sprintf("reflect.Append: value of type %v is not assignable to type %v", xv.T, st.Elem()))
				}
				val = copyVal(xv.get())
			}
			n := len(out.A)
			if n < cap(out.A) {
				r := out.A[:n+1]
				m.store(&r[n], val)
				out = Slice{A: r}
			} else {
				nc := 2 * cap(out.A)
				if nc < 4 {
					nc = 4
				}
				m.noteAlloc(fr, int64(nc)*m.sizeof(st.Elem()))
				ns := m.makeSliceNoNote(st.Elem(), n+1, nc)
				copy(ns.A, out.A)
				ns.A[n] = val
				out = ns
			}
		}
		return RV{T: sv.T, V: out}
	}
	N["reflect.DeepEqual"] = func(m *Machine, fr *Frame, a []Value) Value {
		return m.deepEqual(fr, a[0], a[1], nil, 0)
	}
	N["reflect.Indirect"] = func(m *Machine, fr *Frame, a []Value) Value {
		rv := rvArg(a[0])
		if rv.T != nil {
			if _, ok := rv.T.Underlying().(*types.Pointer); ok {
				return m.rvElem(fr, rv)
			}
		}
		return rv
	}
	N["reflect.PointerTo"] = func(m *Machine, fr *Frame, a []Value) Value {
		return m.rtypeIface(types.NewPointer(typArg(a[0])))
	}
	N["reflect.PtrTo"] = N["reflect.PointerTo"]

	// ----- Value methods -----
	V := func(name string, f func(m *Machine, fr *Frame, rv RV, a []Value) Value) {
		N["(reflect.Value)."+name] = func(m *Machine, fr *Frame, a []Value) Value { return f(m, fr, rvArg(a[0]), a[1:]) }
	}
	V("Kind", func(m *Machine, fr *Frame, rv RV, a []Value) Value {
		if rv.T == nil {
			return Const(64, 0)
		}
		return Const(64, uint64(kindOf(rv.T)))
	})
	V("IsValid", func(m *Machine, fr *Frame, rv RV, a []Value) Value { return Bool(rv.T != nil) })
	V("IsNil", func(m *Machine, fr *Frame, rv RV, a []Value) Value { return Bool(m.rvIsNil(fr, rv)) })
	V("IsZero", func(m *Machine, fr *Frame, rv RV, a []Value) Value { return m.rvIsZero(fr, rv) })
	V("Elem", func(m *Machine, fr *Frame, rv RV, a []Value) Value { return m.rvElem(fr, rv) })
	V("Type", func(m *Machine, fr *Frame, rv RV, a []Value) Value {
		if rv.T == nil {
			m.reflectPanic(fr, "reflect: call of reflect.Value.Type on zero Value")
		}
		return m.rtypeIface(rv.T)
	})
	V("Interface", func(m *Machine, fr *Frame, rv RV, a []Value) Value { return m.rvInterface(fr, rv) })
	V("CanInterface", func(m *Machine, fr *Frame, rv RV, a []Value) Value { return Bool(rv.T != nil && !rv.RO) })
	V("CanAddr", func(m *Machine, fr *Frame, rv RV, a []Value) Value { return Bool(rv.Addr) })
	V("CanSet", func(m *Machine, fr *Frame, rv RV, a []Value) Value { return Bool(rv.Addr && !rv.RO) })
	V("Addr", func(m *Machine, fr *Frame, rv RV, a []Value) Value {
		if !rv.Addr {
			m.reflectPanic(fr, "reflect.Value.Addr of unaddressable value")
		}
		return RV{T: types.NewPointer(rv.T), V: rv.P, RO: rv.RO}
	})
	V("Set", func(m *Machine, fr *Frame, rv RV, a []Value) Value { m.rvSet(fr, rv, rvArg(a[0])); return nil })
	V("SetZero", func(m *Machine, fr *Frame, rv RV, a []Value) Value {
		if !rv.Addr || rv.RO {
			m.reflectPanic(fr, "reflect: reflect.Value.SetZero using unaddressable value")
		}
		m.storeTo(rv.P, m.zero(rv.T))
		return nil
	})
	setScalar := func(name string) {
		V(name, func(m *Machine, fr *Frame, rv RV, a []Value) Value {
			if !rv.Addr || rv.RO {
				m.reflectPanic(fr, "reflect: reflect.Value."+name+" using unaddressable value")
			}
			switch x := a[0].(type) {
			case *Term:
				b := basicOf(rv.T)
				w, _, _ := intWidth(b)
				if w == 0 {
					m.store(rv.P, x)
				} else {
					m.store(rv.P, Resize(x, w, false))
				}
			default:
				m.store(rv.P, x)
			}
			return nil
		})
	}
	for _, n := range []string{"SetInt", "SetUint", "SetBool", "SetString", "SetBytes", "SetFloat"} {
		setScalar(n)
	}
	V("CanInt", func(m *Machine, fr *Frame, rv RV, a []Value) Value { return Bool(rv.T != nil && kInt(kindOf(rv.T))) })
	V("CanUint", func(m *Machine, fr *Frame, rv RV, a []Value) Value { return Bool(rv.T != nil && kUint(kindOf(rv.T))) })
	V("Int", func(m *Machine, fr *Frame, rv RV, a []Value) Value {
		if rv.T == nil || !kInt(kindOf(rv.T)) {
			m.reflectPanic(fr, "reflect: call of reflect.Value.Int on non-int Value")
		}
		return SExt(rv.get().(*Term), 64)
	})
	V("Uint", func(m *Machine, fr *Frame, rv RV, a []Value) Value {
		if rv.T == nil || !kUint(kindOf(rv.T)) {
			m.reflectPanic(fr, "reflect: call of reflect.Value.Uint on non-uint Value")
		}
		return ZExt(rv.get().(*Term), 64)
	})
	V("Bool", func(m *Machine, fr *Frame, rv RV, a []Value) Value {
		if rv.T == nil || kindOf(rv.T) != reflect.Bool {
			m.reflectPanic(fr, "reflect: call of reflect.Value.Bool on non-bool Value")
		}
		return rv.get()
	})
	V("String", func(m *Machine, fr *Frame, rv RV, a []Value) Value {
		if rv.T == nil {
			return "<invalid Value>"
		}
		if kindOf(rv.T) == reflect.String {
			return rv.get()
		}
		return "<" + rv.T.String() + " Value>"
	})
	V("Bytes", func(m *Machine, fr *Frame, rv RV, a []Value) Value {
		switch kindOf(rv.T) {
		case reflect.Slice:
			return rv.get()
		case reflect.Array:
			if !rv.Addr {
				m.reflectPanic(fr, "reflect.Value.Bytes of unaddressable byte array")
			}
			switch arr := (*rv.P).(type) {
			case Array:
				return Slice{A: []Value(arr)}
			case ArrayView:
				return Slice{A: arr.A}
			}
		}
		m.reflectPanic(fr, "reflect: call of reflect.Value.Bytes on non-bytes Value")
		return nil
	})
	V("Len", func(m *Machine, fr *Frame, rv RV, a []Value) Value { return Const(64, uint64(m.rvLen(fr, rv))) })
	V("Cap", func(m *Machine, fr *Frame, rv RV, a []Value) Value {
		switch v := rv.get().(type) {
		case Slice:
			return Const(64, uint64(cap(v.A)))
		case Array:
			return Const(64, uint64(len(v)))
		}
		m.reflectPanic(fr, "reflect: call of reflect.Value.Cap on bad Value")
		return nil
	})
	V("Index", func(m *Machine, fr *Frame, rv RV, a []Value) Value { return m.rvIndex(fr, rv, a[0].(*Term)) })
	V("NumField", func(m *Machine, fr *Frame, rv RV, a []Value) Value {
		st, ok := rv.T.Underlying().(*types.Struct)
		if !ok {
			m.reflectPanic(fr, "reflect: call of reflect.Value.NumField on "+kindOf(rv.T).String()+" Value")
		}
		return Const(64, uint64(st.NumFields()))
	})
	V("Field", func(m *Machine, fr *Frame, rv RV, a []Value) Value {
		return m.rvField(fr, rv, m.intArg(a[0], "field index"))
	})
	V("FieldByIndex", func(m *Machine, fr *Frame, rv RV, a []Value) Value {
		idx := a[0].(Slice)
		cur := rv
		for k, iv := range idx.A {
			if k > 0 {
				if pt, ok := cur.T.Underlying().(*types.Pointer); ok {
					if _, ok := pt.Elem().Underlying().(*types.Struct); ok {
						if m.rvIsNil(fr, cur) {
							m.reflectPanic(fr, "reflect: indirection through nil pointer to embedded struct")
						}
						cur = m.rvElem(fr, cur)
					}
				}
			}
			cur = m.rvField(fr, cur, m.intArg(iv, "field index"))
		}
		return cur
	})
	V("FieldByName", func(m *Machine, fr *Frame, rv RV, a []Value) Value {
		st := rv.T.Underlying().(*types.Struct)
		name, ok := a[0].(string)
		if !ok {
			unsupported("FieldByName with symbolic name")
		}
		for i := 0; i < st.NumFields(); i++ {
			if st.Field(i).Name() == name {
				return m.rvField(fr, rv, i)
			}
		}
		return RV{}
	})
	V("Slice", func(m *Machine, fr *Frame, rv RV, a []Value) Value {
		i, j := m.intArg(a[0], "slice lo"), m.intArg(a[1], "slice hi")
		switch v := rv.get().(type) {
		case Slice:
			if i < 0 || j < i || j > cap(v.A) {
				m.reflectPanic(fr, "reflect.Value.Slice: slice index out of bounds")
			}
			return RV{T: rv.T, V: Slice{A: v.A[i:j]}}
		case string:
			if i < 0 || j < i || j > len(v) {
				m.reflectPanic(fr, "reflect.Value.Slice: string slice index out of bounds")
			}
			return RV{T: rv.T, V: v[i:j]}
		case Array:
			if !rv.Addr {
				m.reflectPanic(fr, "reflect.Value.Slice: slice of unaddressable array")
			}
			arr := (*rv.P).(Array)
			if i < 0 || j < i || j > len(arr) {
				m.reflectPanic(fr, "reflect.Value.Slice: slice index out of bounds")
			}
			return RV{T: types.NewSlice(rv.T.Underlying().(*types.Array).Elem()), V: Slice{A: []Value(arr)[i:j]}}
		}
		m.reflectPanic(fr, "reflect: call of reflect.Value.Slice on bad Value")
		return nil
	})
	V("Grow", func(m *Machine, fr *Frame, rv RV, a []Value) Value {
		n := m.concLen(fr, a[0].(*Term), "reflect Grow")
		if n < 0 {
			m.reflectPanic(fr, "reflect.Value.Grow: negative len")
		}
		if !rv.Addr || rv.RO {
			m.reflectPanic(fr, "reflect: reflect.Value.Grow using unaddressable value")
		}
		s := (*rv.P).(Slice)
		if len(s.A)+n > cap(s.A) {
			elem := rv.T.Underlying().(*types.Slice).Elem()
			ns := m.makeSlice(fr, elem, len(s.A), len(s.A)+n)
			for i := range s.A {
				ns.A[i] = s.A[i]
			}
			m.store(rv.P, ns)
		}
		return nil
	})
	V("SetLen", func(m *Machine, fr *Frame, rv RV, a []Value) Value {
		n := m.intArg(a[0], "reflect SetLen")
		if !rv.Addr || rv.RO {
			m.reflectPanic(fr, "reflect: reflect.Value.SetLen using unaddressable value")
		}
		s := (*rv.P).(Slice)
		if n < 0 || n > cap(s.A) {
			m.reflectPanic(fr, "reflect: slice length out of range in SetLen")
		}
		m.store(rv.P, Slice{A: s.A[:n]})
		return nil
	})
	V("MapKeys", func(m *Machine, fr *Frame, rv RV, a []Value) Value {
		mp := rv.get().(*Map)
		kt := rv.T.Underlying().(*types.Map).Key()
		var out []Value
		if mp != nil {
			for _, e := range mp.entries {
				out = append(out, RV{T: kt, V: e.key})
			}
		}
		if out == nil {
			out = []Value{}
		}
		return Slice{A: out}
	})
	V("MapIndex", func(m *Machine, fr *Frame, rv RV, a []Value) Value {
		mp := rv.get().(*Map)
		if mp == nil {
			return RV{}
		}
		k := rvArg(a[0])
		kv := k.get()
		if _, isI := mp.typ.Key().Underlying().(*types.Interface); isI {
			if _, kI := k.T.Underlying().(*types.Interface); !kI {
				kv = Iface{T: k.T, V: kv}
			}
		}
		e := m.mapFind(mp, kv)
		if e == nil {
			return RV{}
		}
		return RV{T: mp.typ.Elem(), V: copyVal(e.val)}
	})
	V("SetMapIndex", func(m *Machine, fr *Frame, rv RV, a []Value) Value {
		mp := rv.get().(*Map)
		if mp == nil {
			m.reflectPanic(fr, "assignment to entry in nil map")
		}
		k, v := rvArg(a[0]), rvArg(a[1])
		kv := k.get()
		if _, isI := mp.typ.Key().Underlying().(*types.Interface); isI {
			if _, kI := k.T.Underlying().(*types.Interface); !kI {
				kv = Iface{T: k.T, V: kv}
			} else if ki := kv.(Iface); ki.T != nil && !types.Comparable(ki.T) {
				site, _ := m.where(fr)
				panic(TargetPanic{V: Iface{T: m.runtimeErrT, V: "hash of unhashable type " + ki.T.String()}, Site: site, Kind: "runtime: unhashable map key", Stack: m.stack(fr)})
			}
		}
		if v.T == nil {
			m.mapDelete(mp, kv)
			return nil
		}
		vv := v.get()
		if _, isI := mp.typ.Elem().Underlying().(*types.Interface); isI {
			if _, vI := v.T.Underlying().(*types.Interface); !vI {
				vv = Iface{T: v.T, V: vv}
			}
		}
		m.mapSet(mp, copyVal(kv), copyVal(vv))
		return nil
	})
	V("Clear", func(m *Machine, fr *Frame, rv RV, a []Value) Value {
		switch v := rv.get().(type) {
		case *Map:
			if v != nil {
				m.mapClear(v)
			}
		case Slice:
			et := rv.T.Underlying().(*types.Slice).Elem()
			for i := range v.A {
				m.store(&v.A[i], m.zero(et))
			}
		default:
			m.reflectPanic(fr, "reflect: call of reflect.Value.Clear on bad Value")
		}
		return nil
	})
	V("Convert", func(m *Machine, fr *Frame, rv RV, a []Value) Value { return m.rvConvert(fr, rv, typArg(a[0])) })
	V("Pointer", func(m *Machine, fr *Frame, rv RV, a []Value) Value { unsupported("reflect.Value.Pointer"); return nil })
	V("NumMethod", func(m *Machine, fr *Frame, rv RV, a []Value) Value {
		return Const(64, uint64(m.Prog.MethodSets.MethodSet(rv.T).Len()))
	})
	V("Comparable", func(m *Machine, fr *Frame, rv RV, a []Value) Value { return Bool(types.Comparable(rv.T)) })
	V("OverflowInt", func(m *Machine, fr *Frame, rv RV, a []Value) Value {
		w, _, _ := intWidth(basicOf(rv.T))
		x := a[0].(*Term)
		return Not(Eq(SExt(Extract(x, w-1, 0), 64), x))
	})
	V("OverflowUint", func(m *Machine, fr *Frame, rv RV, a []Value) Value {
		w, _, _ := intWidth(basicOf(rv.T))
		x := a[0].(*Term)
		return Not(Eq(ZExt(Extract(x, w-1, 0), 64), x))
	})

	// ----- Type methods (dynamic type rtype) -----
	T := func(name string, f func(m *Machine, fr *Frame, t types.Type, a []Value) Value) {
		N["(rtype)."+name] = func(m *Machine, fr *Frame, a []Value) Value { return f(m, fr, a[0].(RType).T, a[1:]) }
	}
	T("Kind", func(m *Machine, fr *Frame, t types.Type, a []Value) Value { return Const(64, uint64(kindOf(t))) })
	T("Elem", func(m *Machine, fr *Frame, t types.Type, a []Value) Value {
		switch u := t.Underlying().(type) {
		case *types.Pointer:
			return m.rtypeIface(u.Elem())
		case *types.Slice:
			return m.rtypeIface(u.Elem())
		case *types.Array:
			return m.rtypeIface(u.Elem())
		case *types.Map:
			return m.rtypeIface(u.Elem())
		case *types.Chan:
			return m.rtypeIface(u.Elem())
		}
		m.reflectPanic(fr, "reflect: Elem of invalid type "+t.String())
		return nil
	})
	T("Key", func(m *Machine, fr *Frame, t types.Type, a []Value) Value {
		return m.rtypeIface(t.Underlying().(*types.Map).Key())
	})
	T("Len", func(m *Machine, fr *Frame, t types.Type, a []Value) Value {
		return Const(64, uint64(t.Underlying().(*types.Array).Len()))
	})
	T("NumField", func(m *Machine, fr *Frame, t types.Type, a []Value) Value {
		st, ok := t.Underlying().(*types.Struct)
		if !ok {
			m.reflectPanic(fr, "reflect: NumField of non-struct type "+t.String())
		}
		return Const(64, uint64(st.NumFields()))
	})
	T("Field", func(m *Machine, fr *Frame, t types.Type, a []Value) Value {
		i := m.intArg(a[0], "field index")
		st, ok := t.Underlying().(*types.Struct)
		if !ok || i < 0 || i >= st.NumFields() {
			m.reflectPanic(fr, "reflect: Field index out of bounds")
		}
		return m.structFieldValue(t, i, []int{i})
	})
	T("FieldByIndex", func(m *Machine, fr *Frame, t types.Type, a []Value) Value {
		idx := a[0].(Slice)
		cur := t
		var res Value
		var path []int
		for k, iv := range idx.A {
			i := m.intArg(iv, "field index")
			if k > 0 {
				if pt, ok := cur.Underlying().(*types.Pointer); ok {
					cur = pt.Elem()
				}
			}
			st, ok := cur.Underlying().(*types.Struct)
			if !ok || i < 0 || i >= st.NumFields() {
				m.reflectPanic(fr, "reflect: Field index out of bounds")
			}
			path = append(path, i)
			res = m.structFieldValue(cur, i, append([]int(nil), path...))
			cur = st.Field(i).Type()
		}
		return res
	})
	T("Name", func(m *Machine, fr *Frame, t types.Type, a []Value) Value {
		switch n := types.Unalias(t).(type) {
		case *types.Named:
			return n.Obj().Name()
		case *types.Basic:
			return n.Name()
		}
		return ""
	})
	T("PkgPath", func(m *Machine, fr *Frame, t types.Type, a []Value) Value {
		if n, ok := types.Unalias(t).(*types.Named); ok && n.Obj().Pkg() != nil {
			return n.Obj().Pkg().Path()
		}
		return ""
	})
	T("String", func(m *Machine, fr *Frame, t types.Type, a []Value) Value {
		return types.TypeString(t, func(p *types.Package) string { return p.Name() })
	})
	T("Comparable", func(m *Machine, fr *Frame, t types.Type, a []Value) Value { return Bool(types.Comparable(t)) })
	T("Implements", func(m *Machine, fr *Frame, t types.Type, a []Value) Value {
		it := typArg(a[0]).Underlying().(*types.Interface)
		return Bool(m.implements(t, it))
	})
	T("AssignableTo", func(m *Machine, fr *Frame, t types.Type, a []Value) Value {
		return Bool(types.AssignableTo(t, typArg(a[0])))
	})
	T("ConvertibleTo", func(m *Machine, fr *Frame, t types.Type, a []Value) Value {
		return Bool(types.ConvertibleTo(t, typArg(a[0])))
	})
	T("Size", func(m *Machine, fr *Frame, t types.Type, a []Value) Value { return Const(64, uint64(m.sizeof(t))) })
	T("Bits", func(m *Machine, fr *Frame, t types.Type, a []Value) Value { return Const(64, uint64(m.sizeof(t)*8)) })
	T("NumMethod", func(m *Machine, fr *Frame, t types.Type, a []Value) Value {
		return Const(64, uint64(m.Prog.MethodSets.MethodSet(t).Len()))
	})
	N["(reflect.Kind).String"] = func(m *Machine, fr *Frame, a []Value) Value {
		return reflect.Kind(a[0].(*Term).Val).String()
	}
}
