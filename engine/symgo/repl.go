package symgo

import "golang.org/x/tools/go/ssa"

// Replacement table: standard-library functions redirected to Go-source models
// in the harness API package (harness/api/models.go).

var replacements = map[string]string{
	"(crypto.Hash).New":                 "M_HashNew",
	"(crypto.Hash).Available":           "M_HashAvailable",
	"crypto/sha256.New":                 "M_SHA256New",
	"crypto/sha512.New384":              "M_SHA384New",
	"crypto/sha512.New":                 "M_SHA512New",
	"crypto/sha1.New":                   "M_SHA1New",
	"crypto/sha256.Sum256":              "M_Sum256",
	"crypto/sha512.Sum384":              "M_Sum384",
	"crypto/hmac.New":                   "M_HmacNew",
	"crypto/rand.Read":                  "M_RandRead",
	"crypto/elliptic.P224":              "M_P224",
	"crypto/elliptic.P256":              "M_P256",
	"crypto/elliptic.P384":              "M_P384",
	"crypto/elliptic.P521":              "M_P521",
	"crypto/ecdsa.Verify":               "M_EcdsaVerify",
	"crypto/ecdsa.VerifyASN1":           "M_EcdsaVerifyASN1",
	"crypto/rsa.VerifyPKCS1v15":         "M_RsaVerifyPKCS1v15",
	"crypto/rsa.VerifyPSS":              "M_RsaVerifyPSS",
	"encoding/asn1.Unmarshal":           "M_Asn1Unmarshal",
	"crypto/x509.ParsePKIXPublicKey":    "M_ParsePKIXPublicKey",
	"crypto/x509.MarshalPKIXPublicKey":  "M_MarshalPKIXPublicKey",
	"crypto/ecdh.P256":                  "M_ECDH_P256",
	"crypto/ecdh.P384":                  "M_ECDH_P384",
	"(*crypto/ecdh.PrivateKey).Bytes":     "M_ECDHPrivBytes",
	"(*crypto/ecdh.PrivateKey).PublicKey": "M_ECDHPrivPublicKey",
	"(*crypto/ecdh.PrivateKey).Curve":     "M_ECDHPrivCurve",
	"(*crypto/ecdh.PrivateKey).ECDH":      "M_ECDHPrivECDH",
	"(*crypto/ecdh.PublicKey).Bytes":      "M_ECDHPubBytes",
	"crypto/rsa.EncryptOAEP":            "M_EncryptOAEP",
	"crypto/rsa.DecryptOAEP":            "M_DecryptOAEP",
	"crypto/x509.ParseCertificate":        "M_ParseCertificate",
	"crypto/x509.ParseCertificateRequest": "M_ParseCertificateRequest",
	"crypto/aes.NewCipher":              "M_AesNewCipher",
	"crypto/cipher.NewGCM":              "M_NewGCM",
	"crypto/cipher.NewCTR":              "M_NewCTR",
	"crypto/cipher.NewCBCEncrypter":     "M_NewCBCEncrypter",
	"crypto/cipher.NewCBCDecrypter":     "M_NewCBCDecrypter",
	// in-memory file system (FSIM temp file / rename idiom)
	"os.CreateTemp":    "M_CreateTemp",
	"(*os.File).Write": "M_FileWrite",
	"(*os.File).Name":  "M_FileName",
	"(*os.File).Close": "M_FileClose",
	"os.Remove":        "M_Remove",
	"os.Rename":        "M_Rename",
	// session tokens
	"(*encoding/base64.Encoding).EncodeToString": "M_B64Encode",
	"(*encoding/base64.Encoding).DecodeString":   "M_B64Decode",
}

// InstallModels wires the replacement table and model globals. It must be
// called once after NewMachine when the harness API package is part of the program.
func (m *Machine) InstallModels() {
	vp := m.Prog.ImportedPackage(VerifPkg)
	if vp == nil {
		return
	}
	for from, to := range replacements {
		if vp.Func(to) != nil {
			m.repls[from] = VerifPkg + "." + to
		}
	}
	// invalidate cached function info (none yet, normally)
	m.fninfo = map[*ssa.Function]*fnInfo{}
	m.initPackage(vp)
	if rp := m.Prog.ImportedPackage("crypto/rand"); rp != nil {
		if g := rp.Var("Reader"); g != nil {
			if src := vp.Var("M_RandReader"); src != nil {
				*m.globals[g] = *m.globals[src]
			}
		}
	}
}

// InstallHarnessModels lets a harness file replace functions of the package it
// joins (the boundary to code that cannot be executed, e.g. SQL): a package-level
// function VerifModel_f replaces function f, VerifModel__T__m replaces method
// (*T).m of that package. The names of all replacements are reported.
func (m *Machine) InstallHarnessModels(pkg *ssa.Package) []string {
	var out []string
	for name, mem := range pkg.Members {
		fn, ok := mem.(*ssa.Function)
		if !ok || len(name) <= len("VerifModel_") || name[:len("VerifModel_")] != "VerifModel_" {
			continue
		}
		rest := name[len("VerifModel_"):]
		path := pkg.Pkg.Path()
		if rest == "SQL_ExecContext" {
			// a harness-side interpreter for the simple statements issued directly on *sql.DB
			from := "(*database/sql.DB).ExecContext"
			delete(m.natives, from)
			m.repls[from] = path + "." + fn.Name()
			out = append(out, from+" -> "+fn.Name())
			continue
		}
		from := path + "." + rest
		if len(rest) > 1 && rest[0] == '_' {
			// _T__m
			parts := splitOnce(rest[1:], "__")
			if len(parts) == 2 {
				from = "(*" + path + "." + parts[0] + ")." + parts[1]
			}
		}
		m.repls[from] = path + "." + fn.Name()
		out = append(out, from+" -> "+fn.Name())
	}
	m.fninfo = map[*ssa.Function]*fnInfo{}
	return out
}

func splitOnce(s, sep string) []string {
	for i := 0; i+len(sep) <= len(s); i++ {
		if s[i:i+len(sep)] == sep {
			return []string{s[:i], s[i+len(sep):]}
		}
	}
	return []string{s}
}
