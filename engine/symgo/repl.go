package symgo

import "golang.org/x/tools/go/ssa"

// Replacement table: standard-library functions redirected to Go-source models
// in the harness API package (harness/api/models.go).

var replacements = map[string]string{
	"(crypto.Hash).New":                 "M_HashNew",
	"(crypto.Hash).Available":           "M_HashAvailable",
	"crypto/sha256.New":                 "M_SHA256New",
	"crypto/sha512.New384":              "M_SHA384New",
	"crypto/sha512.New":                 "M_SHA512New",
	"crypto/sha1.New":                   "M_SHA1New",
	"crypto/sha256.Sum256":              "M_Sum256",
	"crypto/sha512.Sum384":              "M_Sum384",
	"crypto/hmac.New":                   "M_HmacNew",
	"crypto/rand.Read":                  "M_RandRead",
	"crypto/elliptic.P224":              "M_P224",
	"crypto/elliptic.P256":              "M_P256",
	"crypto/elliptic.P384":              "M_P384",
	"crypto/elliptic.P521":              "M_P521",
	"crypto/ecdsa.Verify":               "M_EcdsaVerify",
	"crypto/ecdsa.VerifyASN1":           "M_EcdsaVerifyASN1",
	"crypto/rsa.VerifyPKCS1v15":         "M_RsaVerifyPKCS1v15",
	"crypto/rsa.VerifyPSS":              "M_RsaVerifyPSS",
	"encoding/asn1.Unmarshal":           "M_Asn1Unmarshal",
	"crypto/x509.ParsePKIXPublicKey":    "M_ParsePKIXPublicKey",
	"crypto/x509.MarshalPKIXPublicKey":  "M_MarshalPKIXPublicKey",
	"crypto/ecdh.P256":                  "M_ECDH_P256",
	"crypto/ecdh.P384":                  "M_ECDH_P384",
	"(*crypto/ecdh.PrivateKey).Bytes":     "M_ECDHPrivBytes",
	"(*crypto/ecdh.PrivateKey).PublicKey": "M_ECDHPrivPublicKey",
	"(*crypto/ecdh.PrivateKey).Curve":     "M_ECDHPrivCurve",
	"(*crypto/ecdh.PrivateKey).ECDH":      "M_ECDHPrivECDH",
	"(*crypto/ecdh.PublicKey).Bytes":      "M_ECDHPubBytes",
	"crypto/rsa.EncryptOAEP":            "M_EncryptOAEP",
	"crypto/rsa.DecryptOAEP":            "M_DecryptOAEP",
	"crypto/x509.ParseCertificate":        "M_ParseCertificate",
	"crypto/x509.ParseCertificateRequest": "M_ParseCertificateRequest",
	"crypto/aes.NewCipher":              "M_AesNewCipher",
	"crypto/cipher.NewGCM":              "M_NewGCM",
	"crypto/cipher.NewCTR":              "M_NewCTR",
	"crypto/cipher.NewCBCEncrypter":     "M_NewCBCEncrypter",
	"crypto/cipher.NewCBCDecrypter":     "M_NewCBCDecrypter",
	// in-memory file system (FSIM temp file / rename idiom)
	"os.CreateTemp":    "M_CreateTemp",
	"(*os.File).Write": "M_FileWrite",
	"(*os.File).Name":  "M_FileName",
	"(*os.File).Close": "M_FileClose",
	"os.Remove":        "M_Remove",
	"os.Rename":        "M_Rename",
}

// InstallModels wires the replacement table and model globals. It must be
// called once after NewMachine when the harness API package is part of the program.
func (m *Machine) InstallModels() {
	vp := m.Prog.ImportedPackage(VerifPkg)
	if vp == nil {
		return
	}
	for from, to := range replacements {
		if vp.Func(to) != nil {
			m.repls[from] = VerifPkg + "." + to
		}
	}
	// invalidate cached function info (none yet, normally)
	m.fninfo = map[*ssa.Function]*fnInfo{}
	m.initPackage(vp)
	if rp := m.Prog.ImportedPackage("crypto/rand"); rp != nil {
		if g := rp.Var("Reader"); g != nil {
			if src := vp.Var("M_RandReader"); src != nil {
				*m.globals[g] = *m.globals[src]
			}
		}
	}
}
