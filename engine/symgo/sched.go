package symgo

// Cooperative goroutines: exactly one interpreted goroutine runs at a time; a
// goroutine runs until it blocks, then the lowest-numbered runnable one
// continues. One schedule only.

import (
	"fmt"
	"go/token"
	"go/types"

	"golang.org/x/tools/go/ssa"
)

type goroutine struct {
	id      int
	resume  chan struct{}
	done    bool
	started bool
	ready   func() bool // nil when runnable
	depth   int
	exited  chan struct{}
}

type scheduler struct {
	m      *Machine
	gs     []*goroutine
	cur    *goroutine
	main   *goroutine
	killed bool
	fatal  any
	Spawned int
}

func newScheduler(m *Machine) *scheduler {
	s := &scheduler{m: m}
	s.reset()
	return s
}

func (s *scheduler) reset() {
	s.main = &goroutine{id: 0, resume: make(chan struct{}), started: true}
	s.gs = []*goroutine{s.main}
	s.cur = s.main
	s.killed = false
	s.fatal = nil
}

func (s *scheduler) spawn(fn Value, args []Value, pos token.Pos) {
	if s.m.P == nil {
		unsupported("goroutine started during package initialisation")
	}
	g := &goroutine{id: len(s.gs), resume: make(chan struct{}), exited: make(chan struct{})}
	s.gs = append(s.gs, g)
	s.Spawned++
	m := s.m
	go func() {
		defer close(g.exited)
		<-g.resume
		if s.killed {
			return
		}
		g.started = true
		defer func() {
			r := recover()
			g.done = true
			if _, ok := r.(pathKilled); ok {
				return
			}
			if r != nil && s.fatal == nil {
				if tp, ok := r.(TargetPanic); ok {
					r = harnessPanic{tp}
				}
				s.fatal = r
			}
			// hand the baton on
			s.yieldFinal(g)
		}()
		m.depth = 0
		m.call(nil, fn, args, pos)
	}()
}

// yieldFinal is called by a finished goroutine: pass control to someone else.
func (s *scheduler) yieldFinal(g *goroutine) {
	if s.killed {
		return
	}
	var next *goroutine
	if s.fatal != nil {
		next = s.main
	} else {
		next = s.pick(g)
		if next == nil {
			// everything else is blocked: deadlock is detected by main
			next = s.main
			if s.fatal == nil && s.main.ready != nil && !s.main.ready() {
				s.fatal = harnessPanic{TargetPanic{V: Iface{T: types.Typ[types.String], V: "all goroutines are asleep - deadlock!"}, Kind: "deadlock", Site: "scheduler"}}
			}
		}
	}
	s.cur = next
	next.resume <- struct{}{}
}

func (s *scheduler) pick(except *goroutine) *goroutine {
	for _, g := range s.gs {
		if g == except || g.done {
			continue
		}
		if g.ready == nil || g.ready() {
			return g
		}
	}
	return nil
}

// block suspends the current goroutine until ready() holds.
func (s *scheduler) block(ready func() bool, what string) {
	if ready() {
		return
	}
	me := s.cur
	me.ready = ready
	me.depth = s.m.depth
	for {
		next := s.pick(me)
		if next == nil {
			me.ready = nil
			site := "scheduler"
			panic(TargetPanic{V: Iface{T: types.Typ[types.String], V: "all goroutines are asleep - deadlock! (" + what + ")"}, Kind: "deadlock", Site: site})
		}
		s.cur = next
		next.resume <- struct{}{}
		<-me.resume
		if s.killed {
			panic(pathKilled{})
		}
		if s.fatal != nil && me == s.main {
			f := s.fatal
			s.fatal = nil
			panic(f)
		}
		s.m.depth = me.depth
		if ready() {
			me.ready = nil
			return
		}
	}
}

// yield lets other runnable goroutines run once (used by runtime.Gosched-like points).
func (s *scheduler) yield() {
	me := s.cur
	next := s.pick(me)
	if next == nil {
		return
	}
	me.depth = s.m.depth
	s.cur = next
	next.resume <- struct{}{}
	<-me.resume
	if s.killed {
		panic(pathKilled{})
	}
	if s.fatal != nil && me == s.main {
		f := s.fatal
		s.fatal = nil
		panic(f)
	}
	s.m.depth = me.depth
}

func (s *scheduler) drain() {}

// killAll tears down every goroutine other than main (called from main).
func (s *scheduler) killAll() {
	s.killed = true
	for _, g := range s.gs {
		if g == s.main || g.done && g.started {
			continue
		}
		if !g.done {
			select {
			case g.resume <- struct{}{}:
			case <-g.exited:
			}
		}
	}
	for _, g := range s.gs {
		if g != s.main {
			<-g.exited
		}
	}
	s.cur = s.main
}

// ---------- channels ----------

type Chan struct {
	cap      int
	buf      []Value
	closed   bool
	slotFull bool
	slot     Value
	recvWait int
	id       int
}

func (m *Machine) makeChan(n int) *Chan {
	m.fresh++
	return &Chan{cap: n, id: m.fresh}
}

func (m *Machine) chanSend(fr *Frame, ch *Chan, v Value) {
	if ch == nil {
		m.sched.block(func() bool { return false }, "send on nil channel")
	}
	if ch.closed {
		site, _ := m.where(fr)
		panic(TargetPanic{V: Iface{T: types.Typ[types.String], V: "send on closed channel"}, Site: site, Kind: "runtime: send on closed channel"})
	}
	if ch.cap > 0 {
		m.sched.block(func() bool { return len(ch.buf) < ch.cap || ch.closed }, "chan send")
		if ch.closed {
			site, _ := m.where(fr)
			panic(TargetPanic{V: Iface{T: types.Typ[types.String], V: "send on closed channel"}, Site: site, Kind: "runtime: send on closed channel"})
		}
		ch.buf = append(ch.buf, v)
		return
	}
	m.sched.block(func() bool { return !ch.slotFull || ch.closed }, "chan send")
	if ch.closed {
		site, _ := m.where(fr)
		panic(TargetPanic{V: Iface{T: types.Typ[types.String], V: "send on closed channel"}, Site: site, Kind: "runtime: send on closed channel"})
	}
	ch.slot, ch.slotFull = v, true
	m.sched.block(func() bool { return !ch.slotFull || ch.closed }, "chan send (rendezvous)")
}

func (ch *Chan) canRecv() bool { return ch.slotFull || len(ch.buf) > 0 || ch.closed }

func (ch *Chan) take() (Value, bool) {
	if len(ch.buf) > 0 {
		v := ch.buf[0]
		ch.buf = ch.buf[1:]
		return v, true
	}
	if ch.slotFull {
		v := ch.slot
		ch.slot, ch.slotFull = nil, false
		return v, true
	}
	return nil, false
}

func (m *Machine) chanRecv(fr *Frame, ch *Chan, elem types.Type) (Value, bool) {
	if ch == nil {
		m.sched.block(func() bool { return false }, "receive from nil channel")
	}
	if !ch.canRecv() {
		ch.recvWait++
		m.sched.block(ch.canRecv, "chan receive")
		ch.recvWait--
	}
	if v, ok := ch.take(); ok {
		return v, true
	}
	return m.zero(elem), false
}

func (m *Machine) chanClose(fr *Frame, ch *Chan) {
	if ch == nil || ch.closed {
		site, _ := m.where(fr)
		panic(TargetPanic{V: Iface{T: types.Typ[types.String], V: "close of nil or closed channel"}, Site: site, Kind: "runtime: close of closed channel"})
	}
	ch.closed = true
}

func (m *Machine) selectOp(fr *Frame, ins *ssa.Select) Value {
	type cs struct {
		ch   *Chan
		send bool
		val  Value
	}
	cases := make([]cs, len(ins.States))
	for i, st := range ins.States {
		c := cs{send: st.Dir == types.SendOnly}
		if ch := fr.get(st.Chan); ch != nil {
			c.ch = ch.(*Chan)
		}
		if st.Send != nil {
			c.val = copyVal(fr.get(st.Send))
		}
		cases[i] = c
	}
	readyIdx := func() int {
		for i, c := range cases {
			if c.ch == nil {
				continue
			}
			if c.send {
				if c.ch.closed {
					return i
				}
				if c.ch.cap > 0 && len(c.ch.buf) < c.ch.cap {
					return i
				}
				if c.ch.cap == 0 && !c.ch.slotFull && c.ch.recvWait > 0 {
					return i
				}
			} else if c.ch.canRecv() {
				return i
			}
		}
		return -1
	}
	chosen := readyIdx()
	if chosen < 0 {
		if !ins.Blocking {
			r := Tuple{Const(64, ^uint64(0)), FalseT}
			for _, st := range ins.States {
				if st.Dir == types.RecvOnly {
					r = append(r, m.zero(st.Chan.Type().Underlying().(*types.Chan).Elem()))
				}
			}
			return r
		}
		for _, c := range cases {
			if c.ch != nil && !c.send {
				c.ch.recvWait++
			}
		}
		m.sched.block(func() bool { return readyIdx() >= 0 }, "select")
		for _, c := range cases {
			if c.ch != nil && !c.send {
				c.ch.recvWait--
			}
		}
		chosen = readyIdx()
	}
	c := cases[chosen]
	var recvVal Value
	recvOk := false
	if c.send {
		if c.ch.closed {
			site, _ := m.where(fr)
			panic(TargetPanic{V: Iface{T: types.Typ[types.String], V: "send on closed channel"}, Site: site, Kind: "runtime: send on closed channel"})
		}
		if c.ch.cap > 0 {
			c.ch.buf = append(c.ch.buf, c.val)
		} else {
			c.ch.slot, c.ch.slotFull = c.val, true
		}
	} else {
		recvVal, recvOk = c.ch.take()
	}
	r := Tuple{Const(64, uint64(chosen)), Bool(recvOk)}
	for i, st := range ins.States {
		if st.Dir == types.RecvOnly {
			if i == chosen && recvOk {
				r = append(r, recvVal)
			} else {
				r = append(r, m.zero(st.Chan.Type().Underlying().(*types.Chan).Elem()))
			}
		}
	}
	return r
}

var _ = fmt.Sprintf
