package symgo

// One long-lived SMT solver process spoken to in SMT-LIB2 over a pipe.

import (
	"bufio"
	"fmt"
	"io"
	"math/big"
	"os"
	"os/exec"
	"strings"
	"time"
)

type SatResult int

const (
	Unsat SatResult = iota
	Sat
	Unknown
)

func (r SatResult) String() string { return [...]string{"unsat", "sat", "unknown"}[r] }

type Solver struct {
	cmd      *exec.Cmd
	in       io.WriteCloser
	out      *bufio.Reader
	named    map[*Term]string // terms with a define-fun
	declared map[*Term]bool   // variables declared
	funcs    map[string]bool
	nDefs    int
	level    int
	Queries  int
	Time     time.Duration
	Errors   int
	kind     string
	timeout  int // ms
	log      io.Writer
	uses     int
	lastAssert *Term
	ValueTime time.Duration
	SendTime time.Duration
}

// SolverKind: "z3", "z3-new", "cvc5"
func NewSolver(kind string, timeoutMs int) (*Solver, error) {
	s := &Solver{kind: kind, timeout: timeoutMs}
	if err := s.start(); err != nil {
		return nil, err
	}
	return s, nil
}

func (s *Solver) start() error {
	var cmd *exec.Cmd
	switch s.kind {
	case "z3", "z3-new":
		cmd = exec.Command(s.kind, "-in", fmt.Sprintf("-t:%d", s.timeout))
	case "cvc5":
		cmd = exec.Command("cvc5", "--incremental", "--lang=smt2", fmt.Sprintf("--tlimit-per=%d", s.timeout), "--produce-models")
	default:
		return fmt.Errorf("unknown solver %q", s.kind)
	}
	in, err := cmd.StdinPipe()
	if err != nil {
		return err
	}
	out, err := cmd.StdoutPipe()
	if err != nil {
		return err
	}
	cmd.Stderr = os.Stderr
	if err := cmd.Start(); err != nil {
		return err
	}
	s.cmd, s.in, s.out = cmd, in, bufio.NewReaderSize(out, 1<<16)
	s.named = map[*Term]string{}
	s.declared = map[*Term]bool{}
	s.funcs = map[string]bool{}
	s.nDefs = 0
	s.level = 0
	s.uses = 0
	if f := os.Getenv("SYMGO_SMTLOG"); f != "" && s.log == nil {
		if w, err := os.OpenFile(f, os.O_CREATE|os.O_WRONLY|os.O_APPEND, 0o644); err == nil {
			s.log = w
		}
	}
	s.send("(set-option :global-declarations true)")
	s.send("(set-option :produce-models true)")
	if s.kind == "cvc5" {
		s.send("(set-logic QF_BV)")
	}
	return nil
}

func (s *Solver) Close() {
	if s.cmd != nil {
		s.in.Close()
		s.cmd.Process.Kill()
		s.cmd.Wait()
		s.cmd = nil
	}
}

// Restart replaces the solver process (drops all state).
func (s *Solver) Restart() error {
	s.Close()
	return s.start()
}

func (s *Solver) send(line string) {
	if s.log != nil {
		fmt.Fprintln(s.log, line)
	}
	st := time.Now()
	io.WriteString(s.in, line)
	io.WriteString(s.in, "\n")
	s.SendTime += time.Since(st)
}

func (s *Solver) readLine() string {
	l, err := s.out.ReadString('\n')
	if err != nil {
		return "(error \"solver died: " + err.Error() + "\")"
	}
	return strings.TrimSpace(l)
}

// define emits declarations/definitions needed to mention t and returns its printed form.
func (s *Solver) ref(t *Term) string {
	s.prepare(t)
	var sb strings.Builder
	t.write(&sb, s.named, 0)
	return sb.String()
}

// prepare walks t bottom-up (iteratively) declaring variables and naming every
// composite node once, so that printing is linear in the DAG size.
func (s *Solver) prepare(root *Term) {
	type item struct {
		t    *Term
		done bool
	}
	stack := []item{{root, false}}
	for len(stack) > 0 {
		it := stack[len(stack)-1]
		stack = stack[:len(stack)-1]
		t := it.t
		if t.Op == OpConst || t.Op == OpWide {
			continue
		}
		if t.Op == OpVar {
			if !s.declared[t] {
				s.declared[t] = true
				s.send(fmt.Sprintf("(declare-const %s %s)", smtName(fmt.Sprintf("%s@%d", t.Name, t.W)), sortStr(t.W)))
			}
			continue
		}
		if _, ok := s.named[t]; ok {
			continue
		}
		if t.Op == OpUF {
			key := fmt.Sprintf("%s/%d/%d", t.Name, t.Args[0].W, t.W)
			if !s.funcs[key] {
				s.funcs[key] = true
				s.send(fmt.Sprintf("(declare-fun %s (%s) %s)", smtName(t.Name), sortStr(t.Args[0].W), sortStr(t.W)))
			}
		}
		if !it.done {
			stack = append(stack, item{t, true})
			for _, a := range t.Args {
				stack = append(stack, item{a, false})
			}
			continue
		}
		// all args prepared: define this node
		var sb strings.Builder
		// print one level (children are named or leaves)
		t.write(&sb, s.named, 0)
		s.nDefs++
		name := fmt.Sprintf("t!%d", s.nDefs)
		s.send(fmt.Sprintf("(define-fun %s () %s %s)", name, sortStr(t.W), sb.String()))
		s.named[t] = name
	}
}

func (s *Solver) Push() {
	s.send("(push 1)")
	s.level++
}

func (s *Solver) Pop(n int) {
	if n <= 0 {
		return
	}
	s.send(fmt.Sprintf("(pop %d)", n))
	s.level -= n
}

func (s *Solver) Assert(t *Term) {
	if t.IsTrue() {
		return
	}
	s.lastAssert = t
	s.send("(assert " + s.ref(t) + ")")
}

func (s *Solver) Check() SatResult {
	s.Queries++
	s.uses++
	start := time.Now()
	s.send("(check-sat)")
	for {
		l := s.readLine()
		if d := time.Since(start); d > 700*time.Millisecond && os.Getenv("SYMGO_SLOWQ") != "" && (l == "sat" || l == "unsat" || l == "unknown") {
			txt := ""
			if s.lastAssert != nil {
				txt = s.lastAssert.String()
				if len(txt) > 600 {
					txt = txt[:600] + "..."
				}
			}
			fmt.Fprintf(os.Stderr, "[slow query %.1fs %s] last assert: %s\n", d.Seconds(), l, txt)
		}
		switch {
		case l == "sat":
			s.Time += time.Since(start)
			return Sat
		case l == "unsat":
			s.Time += time.Since(start)
			return Unsat
		case l == "unknown" || l == "timeout":
			s.Time += time.Since(start)
			return Unknown
		case strings.HasPrefix(l, "(error"):
			s.Errors++
			fmt.Fprintln(os.Stderr, "solver:", l)
			if strings.Contains(l, "solver died") {
				s.Time += time.Since(start)
				return Unknown
			}
		case l == "":
		default:
			fmt.Fprintln(os.Stderr, "solver says:", l)
		}
	}
}

// Value asks for the model value of t after a Sat answer.
func (s *Solver) Value(t *Term) (*big.Int, bool) {
	if t.Op == OpConst {
		return new(big.Int).SetUint64(t.Val), true
	}
	vstart := time.Now()
	defer func() { s.ValueTime += time.Since(vstart) }()
	r := s.ref(t)
	s.send("(get-value (" + r + "))")
	// response: ((<expr> <value>)) possibly spanning lines
	var resp strings.Builder
	depth := 0
	started := false
	for {
		l := s.readLine()
		if strings.HasPrefix(l, "(error") {
			s.Errors++
			fmt.Fprintln(os.Stderr, "solver:", l)
			return nil, false
		}
		resp.WriteString(l)
		resp.WriteString(" ")
		for _, c := range l {
			if c == '(' {
				depth++
				started = true
			} else if c == ')' {
				depth--
			}
		}
		if started && depth <= 0 {
			break
		}
	}
	txt := strings.TrimSpace(resp.String())
	// take the last token before the closing parens
	txt = strings.TrimRight(txt, ") ")
	// value is the last token; may be "(_ bvN W" form
	if i := strings.LastIndex(txt, "(_ bv"); i >= 0 && !strings.Contains(txt[i:], ")") {
		f := strings.Fields(txt[i+5:])
		v, ok := new(big.Int).SetString(f[0], 10)
		return v, ok
	}
	f := strings.Fields(txt)
	tok := f[len(f)-1]
	switch {
	case tok == "true":
		return big.NewInt(1), true
	case tok == "false":
		return big.NewInt(0), true
	case strings.HasPrefix(tok, "#x"):
		v, ok := new(big.Int).SetString(tok[2:], 16)
		return v, ok
	case strings.HasPrefix(tok, "#b"):
		v, ok := new(big.Int).SetString(tok[2:], 2)
		return v, ok
	}
	return nil, false
}

// CheckOnce runs a standalone query (fresh scope) for assertion sets: used to
// cross-check a verdict with another back end.
func CheckOnce(kind string, timeoutMs int, asserts []*Term) (SatResult, error) {
	s, err := NewSolver(kind, timeoutMs)
	if err != nil {
		return Unknown, err
	}
	defer s.Close()
	for _, a := range asserts {
		s.Assert(a)
	}
	r := s.Check()
	if s.Errors > 0 {
		return Unknown, fmt.Errorf("solver %s reported errors", kind)
	}
	return r, nil
}
