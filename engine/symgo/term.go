package symgo

// Hash-consed SMT terms: bit-vectors (W >= 1) and booleans (W == 0).

import (
	"fmt"
	"math/big"
	"math/bits"
	"strings"
	"sync"
)

type Op uint8

const (
	OpConst Op = iota
	OpVar
	// bool
	OpNot
	OpAnd
	OpOr
	OpEq // bool result, args any same sort
	OpUlt
	OpUle
	OpSlt
	OpSle
	// bv
	OpAdd
	OpSub
	OpMul
	OpUDiv
	OpURem
	OpSDiv
	OpSRem
	OpBAnd
	OpBOr
	OpBXor
	OpShl
	OpLShr
	OpAShr
	OpBNot
	OpNeg
	OpConcat  // args: hi, lo
	OpExtract // A=hi bit, B=lo bit
	OpZExt
	OpSExt
	OpIte // cond, a, b (result sort = a's)
	OpWide // wide constant (W > 64) held in Big
	OpUF   // uninterpreted function Name applied to Args[0] (a bit-vector); result width W
)

var opNames = map[Op]string{
	OpNot: "not", OpAnd: "and", OpOr: "or", OpEq: "=", OpUlt: "bvult", OpUle: "bvule", OpSlt: "bvslt", OpSle: "bvsle",
	OpAdd: "bvadd", OpSub: "bvsub", OpMul: "bvmul", OpUDiv: "bvudiv", OpURem: "bvurem", OpSDiv: "bvsdiv", OpSRem: "bvsrem",
	OpBAnd: "bvand", OpBOr: "bvor", OpBXor: "bvxor", OpShl: "bvshl", OpLShr: "bvlshr", OpAShr: "bvashr", OpBNot: "bvnot", OpNeg: "bvneg",
	OpConcat: "concat", OpIte: "ite",
}

// Term is immutable. W==0 means Bool; otherwise bit-vector of width W.
type Term struct {
	Op   Op
	W    int
	Val  uint64 // OpConst (W<=64): value (masked); bool: 0/1
	A, B int    // OpExtract hi/lo
	Name string // OpVar
	Args []*Term
	Big  *big.Int // OpWide
	id   uint64
}

type termKey struct {
	op      Op
	w       int
	a, b    int
	x, y, z uint64
	name    string
}

var (
	termMu    sync.Mutex
	termTab   = map[termKey]*Term{}
	termNext  uint64 = 1 << 20
	smallC    [5][257]*Term
	TrueT     = &Term{Op: OpConst, W: 0, Val: 1, id: 1}
	FalseT    = &Term{Op: OpConst, W: 0, Val: 0, id: 2}
	wideConst = map[string]*Term{}
)

func widthSlot(w int) int {
	switch w {
	case 8:
		return 0
	case 16:
		return 1
	case 32:
		return 2
	case 64:
		return 3
	case 1:
		return 4
	}
	return -1
}

func init() {
	id := uint64(10)
	for s, w := range []int{8, 16, 32, 64, 1} {
		for v := 0; v < 257; v++ {
			if w == 8 && v > 255 || w == 1 && v > 1 {
				continue
			}
			smallC[s][v] = &Term{Op: OpConst, W: w, Val: uint64(v), id: id}
			id++
		}
	}
}

func mask(w int) uint64 {
	if w >= 64 {
		return ^uint64(0)
	}
	return (uint64(1) << uint(w)) - 1
}

// Const returns a bit-vector constant (w in 1..64).
func Const(w int, v uint64) *Term {
	if w <= 0 || w > 64 {
		panic(fmt.Sprintf("Const: bad width %d", w))
	}
	v &= mask(w)
	if v <= 256 {
		if s := widthSlot(w); s >= 0 && smallC[s][v] != nil {
			return smallC[s][v]
		}
	}
	// constants are not interned; id derived lazily
	return &Term{Op: OpConst, W: w, Val: v}
}

func Bool(b bool) *Term {
	if b {
		return TrueT
	}
	return FalseT
}

func (t *Term) IsConst() bool { return t.Op == OpConst }
func (t *Term) IsBool() bool  { return t.W == 0 }
func (t *Term) IsTrue() bool  { return t.Op == OpConst && t.W == 0 && t.Val == 1 }
func (t *Term) IsFalse() bool { return t.Op == OpConst && t.W == 0 && t.Val == 0 }

// ID returns a stable identity for hashing; constants get a value-derived key.
func (t *Term) key() (uint64, uint64) {
	if t.Op == OpConst {
		return uint64(t.W)<<1 | 1<<63, t.Val
	}
	return t.id, 0
}

func sameTerm(a, b *Term) bool {
	if a == b {
		return true
	}
	if a.Op == OpConst && b.Op == OpConst {
		return a.W == b.W && a.Val == b.Val
	}
	return false
}

func intern(op Op, w int, a, b int, name string, args ...*Term) *Term {
	k := termKey{op: op, w: w, a: a, b: b, name: name}
	// mix arg ids
	var ks [3][2]uint64
	if len(args) > 3 {
		panic("too many args")
	}
	for i, x := range args {
		ks[i][0], ks[i][1] = x.key()
	}
	k.x = ks[0][0]*1000003 ^ ks[0][1]
	k.y = ks[1][0]*1000003 ^ ks[1][1]
	k.z = ks[2][0]*1000003 ^ ks[2][1]
	termMu.Lock()
	defer termMu.Unlock()
	if t, ok := termTab[k]; ok {
		// verify (guards against the unlikely mix collision)
		if len(t.Args) == len(args) {
			same := true
			for i := range args {
				if !sameTerm(t.Args[i], args[i]) {
					same = false
				}
			}
			if same {
				return t
			}
		}
		// collision: fall through creating an un-interned term
		termNext++
		return &Term{Op: op, W: w, A: a, B: b, Name: name, Args: append([]*Term(nil), args...), id: termNext}
	}
	termNext++
	t := &Term{Op: op, W: w, A: a, B: b, Name: name, Args: append([]*Term(nil), args...), id: termNext}
	termTab[k] = t
	return t
}

// UF applies the uninterpreted function name (result width w) to one bit-vector argument.
func UF(name string, w int, arg *Term) *Term { return intern(OpUF, w, 0, 0, name, arg) }

// Var returns the variable with the given name and sort (interned by name).
func Var(name string, w int) *Term { return intern(OpVar, w, 0, 0, name) }

// WideConst builds a constant wider than 64 bits.
func WideConst(w int, v *big.Int) *Term {
	if w <= 64 {
		return Const(w, v.Uint64())
	}
	k := fmt.Sprintf("%d:%s", w, v.Text(16))
	termMu.Lock()
	defer termMu.Unlock()
	if t, ok := wideConst[k]; ok {
		return t
	}
	termNext++
	t := &Term{Op: OpWide, W: w, Big: new(big.Int).Set(v), id: termNext}
	wideConst[k] = t
	return t
}

// ---------- boolean constructors ----------

func Not(a *Term) *Term {
	if a.W != 0 {
		panic("Not on non-bool")
	}
	if a.IsConst() {
		return Bool(a.Val == 0)
	}
	if a.Op == OpNot {
		return a.Args[0]
	}
	return intern(OpNot, 0, 0, 0, "", a)
}

func And(a, b *Term) *Term {
	if a.IsConst() {
		if a.Val == 0 {
			return FalseT
		}
		return b
	}
	if b.IsConst() {
		if b.Val == 0 {
			return FalseT
		}
		return a
	}
	if a == b {
		return a
	}
	return intern(OpAnd, 0, 0, 0, "", a, b)
}

func Or(a, b *Term) *Term {
	if a.IsConst() {
		if a.Val == 1 {
			return TrueT
		}
		return b
	}
	if b.IsConst() {
		if b.Val == 1 {
			return TrueT
		}
		return a
	}
	if a == b {
		return a
	}
	return intern(OpOr, 0, 0, 0, "", a, b)
}

func Implies(a, b *Term) *Term { return Or(Not(a), b) }

func Eq(a, b *Term) *Term {
	if a.W != b.W {
		panic(fmt.Sprintf("Eq: width mismatch %d vs %d", a.W, b.W))
	}
	if sameTerm(a, b) {
		return TrueT
	}
	if a.IsConst() && b.IsConst() {
		return Bool(a.Val == b.Val)
	}
	if a.Op == OpWide && b.Op == OpWide {
		return Bool(a.Big.Cmp(b.Big) == 0)
	}
	if a.W == 0 {
		// bool equality
		if a.IsConst() {
			if a.Val == 1 {
				return b
			}
			return Not(b)
		}
		if b.IsConst() {
			if b.Val == 1 {
				return a
			}
			return Not(a)
		}
	}
	// canonical order
	if b.IsConst() || (!a.IsConst() && a.id > b.id) {
		a, b = b, a
	}
	// eq(const, zext(x)) where const exceeds range -> false
	if a.IsConst() && b.Op == OpZExt {
		inner := b.Args[0]
		if inner.W < 64 && a.Val > mask(inner.W) {
			return FalseT
		}
		if inner.W <= 64 {
			return Eq(Const(inner.W, a.Val), inner)
		}
	}
	// x*K == y*K (mod 2^w) with K = odd*2^s  <=>  x == y (mod 2^(w-s))
	if a.Op == OpMul && b.Op == OpMul && a.Args[1].IsConst() && b.Args[1].IsConst() && a.Args[1].Val == b.Args[1].Val && a.Args[1].Val != 0 {
		k := a.Args[1].Val
		sft := bits.TrailingZeros64(k)
		if sft < a.W {
			return Eq(Extract(a.Args[0], a.W-1-sft, 0), Extract(b.Args[0], a.W-1-sft, 0))
		}
	}
	// eq(const, ite(c, k1, k2)) with const branches
	if a.IsConst() && b.Op == OpIte && b.Args[1].IsConst() && b.Args[2].IsConst() {
		e1 := a.Val == b.Args[1].Val
		e2 := a.Val == b.Args[2].Val
		switch {
		case e1 && e2:
			return TrueT
		case e1:
			return b.Args[0]
		case e2:
			return Not(b.Args[0])
		default:
			return FalseT
		}
	}
	return intern(OpEq, 0, 0, 0, "", a, b)
}

func cmpOp(op Op, a, b *Term) *Term {
	if a.W != b.W || a.W == 0 {
		panic(fmt.Sprintf("cmp: width mismatch %d vs %d", a.W, b.W))
	}
	if a.IsConst() && b.IsConst() {
		x, y := a.Val, b.Val
		sx, sy := signExt(x, a.W), signExt(y, a.W)
		switch op {
		case OpUlt:
			return Bool(x < y)
		case OpUle:
			return Bool(x <= y)
		case OpSlt:
			return Bool(sx < sy)
		case OpSle:
			return Bool(sx <= sy)
		}
	}
	if a.W > 64 && isConstAny(a) && isConstAny(b) {
		// wide constants (concrete replay of big-integer code)
		x, y := constBig(a), constBig(b)
		if op == OpSlt || op == OpSle {
			half := new(big.Int).Lsh(big.NewInt(1), uint(a.W-1))
			full := new(big.Int).Lsh(big.NewInt(1), uint(a.W))
			if x.Cmp(half) >= 0 {
				x = new(big.Int).Sub(x, full)
			}
			if y.Cmp(half) >= 0 {
				y = new(big.Int).Sub(y, full)
			}
		}
		c := x.Cmp(y)
		switch op {
		case OpUlt, OpSlt:
			return Bool(c < 0)
		default:
			return Bool(c <= 0)
		}
	}
	if sameTerm(a, b) {
		return Bool(op == OpUle || op == OpSle)
	}
	switch op {
	case OpUlt:
		if b.IsConst() && b.Val == 0 {
			return FalseT
		}
		// zext(x) < const beyond range
		if a.Op == OpZExt && b.IsConst() && a.Args[0].W < 64 && b.Val > mask(a.Args[0].W) {
			return TrueT
		}
	case OpUle:
		if a.IsConst() && a.Val == 0 {
			return TrueT
		}
		if b.IsConst() && b.Val == mask(b.W) {
			return TrueT
		}
		if a.Op == OpZExt && b.IsConst() && a.Args[0].W < 64 && b.Val >= mask(a.Args[0].W) {
			return TrueT
		}
	}
	return intern(op, 0, 0, 0, "", a, b)
}

func Ult(a, b *Term) *Term { return cmpOp(OpUlt, a, b) }
func Ule(a, b *Term) *Term { return cmpOp(OpUle, a, b) }
func Slt(a, b *Term) *Term { return cmpOp(OpSlt, a, b) }
func Sle(a, b *Term) *Term { return cmpOp(OpSle, a, b) }

func signExt(v uint64, w int) int64 {
	if w >= 64 {
		return int64(v)
	}
	if v&(1<<uint(w-1)) != 0 {
		return int64(v | ^mask(w))
	}
	return int64(v)
}

// ---------- bit-vector constructors ----------

func BinBV(op Op, a, b *Term) *Term {
	if a.W != b.W || a.W == 0 {
		panic(fmt.Sprintf("BinBV %v: width mismatch %d vs %d", opNames[op], a.W, b.W))
	}
	w := a.W
	if w > 64 && isConstAny(a) && isConstAny(b) {
		x, y := constBig(a), constBig(b)
		mod := new(big.Int).Lsh(big.NewInt(1), uint(w))
		var r *big.Int
		switch op {
		case OpAdd:
			r = new(big.Int).Add(x, y)
		case OpSub:
			r = new(big.Int).Sub(x, y)
		case OpMul:
			r = new(big.Int).Mul(x, y)
		case OpBAnd:
			r = new(big.Int).And(x, y)
		case OpBOr:
			r = new(big.Int).Or(x, y)
		case OpBXor:
			r = new(big.Int).Xor(x, y)
		}
		if r != nil {
			r.Mod(r, mod)
			return WideConst(w, r)
		}
	}
	if a.IsConst() && b.IsConst() {
		x, y := a.Val, b.Val
		var r uint64
		switch op {
		case OpAdd:
			r = x + y
		case OpSub:
			r = x - y
		case OpMul:
			r = x * y
		case OpUDiv:
			if y == 0 {
				r = mask(w)
			} else {
				r = x / y
			}
		case OpURem:
			if y == 0 {
				r = x
			} else {
				r = x % y
			}
		case OpSDiv:
			sx, sy := signExt(x, w), signExt(y, w)
			if sy == 0 {
				if sx < 0 {
					r = 1
				} else {
					r = mask(w)
				}
			} else if sy == -1 {
				r = uint64(-sx)
			} else {
				r = uint64(sx / sy)
			}
		case OpSRem:
			sx, sy := signExt(x, w), signExt(y, w)
			if sy == 0 {
				r = x
			} else if sy == -1 {
				r = 0
			} else {
				r = uint64(sx % sy)
			}
		case OpBAnd:
			r = x & y
		case OpBOr:
			r = x | y
		case OpBXor:
			r = x ^ y
		case OpShl:
			if y >= uint64(w) {
				r = 0
			} else {
				r = x << y
			}
		case OpLShr:
			if y >= uint64(w) {
				r = 0
			} else {
				r = x >> y
			}
		case OpAShr:
			sx := signExt(x, w)
			if y >= uint64(w) {
				if sx < 0 {
					r = mask(w)
				} else {
					r = 0
				}
			} else {
				r = uint64(sx >> y)
			}
		default:
			panic("BinBV: bad op")
		}
		return Const(w, r)
	}
	// identities
	switch op {
	case OpAdd:
		if a.IsConst() && a.Val == 0 {
			return b
		}
		if b.IsConst() && b.Val == 0 {
			return a
		}
		// (x + c1) + c2
		if b.IsConst() && a.Op == OpAdd && a.Args[1].IsConst() {
			return BinBV(OpAdd, a.Args[0], Const(w, a.Args[1].Val+b.Val))
		}
		if a.IsConst() {
			a, b = b, a
		}
	case OpSub:
		if b.IsConst() && b.Val == 0 {
			return a
		}
		if sameTerm(a, b) {
			return Const(w, 0)
		}
		if b.IsConst() {
			return BinBV(OpAdd, a, Const(w, -b.Val))
		}
	case OpMul:
		if a.IsConst() {
			a, b = b, a
		}
		if b.IsConst() {
			if b.Val == 0 {
				return Const(w, 0)
			}
			if b.Val == 1 {
				return a
			}
		}
	case OpBAnd:
		if a.IsConst() {
			a, b = b, a
		}
		if b.IsConst() {
			if b.Val == 0 {
				return Const(w, 0)
			}
			if b.Val == mask(w) {
				return a
			}
			// zext(x) & mask where mask covers x
			if a.Op == OpZExt && a.Args[0].W < 64 && b.Val&mask(a.Args[0].W) == mask(a.Args[0].W) {
				return a
			}
		}
		if sameTerm(a, b) {
			return a
		}
	case OpBOr:
		if a.IsConst() {
			a, b = b, a
		}
		if b.IsConst() {
			if b.Val == 0 {
				return a
			}
			if b.Val == mask(w) {
				return b
			}
		}
		if sameTerm(a, b) {
			return a
		}
		if r := orDisjoint(a, b); r != nil {
			return r
		}
	case OpBXor:
		if a.IsConst() {
			a, b = b, a
		}
		if b.IsConst() && b.Val == 0 {
			return a
		}
		if sameTerm(a, b) {
			return Const(w, 0)
		}
	case OpShl, OpLShr, OpAShr:
		if b.IsConst() && b.Val == 0 {
			return a
		}
		if a.IsConst() && a.Val == 0 {
			return a
		}
		if b.IsConst() && b.Val >= uint64(w) && op != OpAShr {
			return Const(w, 0)
		}
		// constant shifts as extract/concat (friendlier for the solver and the simplifier)
		if b.IsConst() && w <= 64 {
			k := int(b.Val)
			switch op {
			case OpShl:
				return Concat(Extract(a, w-1-k, 0), Const(k, 0))
			case OpLShr:
				return ZExt(Extract(a, w-1, k), w)
			}
		}
	case OpUDiv:
		if b.IsConst() && b.Val == 1 {
			return a
		}
	}
	// unsigned division/remainder of a zero-extended value by a constant that
	// fits the narrow width: do it at the narrow width (much cheaper to bit-blast)
	if (op == OpUDiv || op == OpURem) && a.Op == OpZExt && b.IsConst() && b.Val != 0 {
		x := a.Args[0]
		nw := x.W
		if nw < 8 {
			nw = 8
		}
		if nw < w && b.Val <= mask(nw) {
			return ZExt(BinBV(op, ZExt(x, nw), Const(nw, b.Val)), w)
		}
	}
	if (op == OpSDiv || op == OpSRem) && a.Op == OpZExt && b.IsConst() && b.Val != 0 && signExt(b.Val, w) > 0 {
		// non-negative dividend, positive divisor: same as unsigned
		uop := OpUDiv
		if op == OpSRem {
			uop = OpURem
		}
		return BinBV(uop, a, b)
	}
	return intern(op, w, 0, 0, "", a, b)
}

// ---- segment normalisation: OR of values with disjoint non-zero bit ranges ----

type seg struct {
	w int
	t *Term // nil: all-zero bits
}

func segments(t *Term, out []seg) []seg {
	switch t.Op {
	case OpConst:
		if t.Val == 0 {
			return append(out, seg{t.W, nil})
		}
	case OpWide:
		if t.Big.Sign() == 0 {
			return append(out, seg{t.W, nil})
		}
	case OpZExt:
		out = append(out, seg{t.W - t.Args[0].W, nil})
		return segments(t.Args[0], out)
	case OpConcat:
		out = segments(t.Args[0], out)
		return segments(t.Args[1], out)
	}
	return append(out, seg{t.W, t})
}

// orDisjoint returns a|b as a concatenation when no bit position is possibly
// non-zero in both operands (by structure), else nil.
func orDisjoint(a, b *Term) *Term {
	sa := segments(a, nil)
	sb := segments(b, nil)
	if len(sa) == 1 && sa[0].t != nil || len(sb) == 1 && sb[0].t != nil {
		return nil
	}
	var pieces []seg
	i, j := 0, 0
	// remaining parts of the current segments
	var ra, rb seg
	if len(sa) > 0 {
		ra = sa[0]
	}
	if len(sb) > 0 {
		rb = sb[0]
	}
	for i < len(sa) && j < len(sb) {
		n := ra.w
		if rb.w < n {
			n = rb.w
		}
		if ra.t != nil && rb.t != nil {
			return nil
		}
		var piece seg
		piece.w = n
		src := ra
		if ra.t == nil {
			src = rb
		}
		if src.t != nil {
			// take the top n bits of src
			piece.t = Extract(src.t, src.w-1, src.w-n)
		}
		pieces = append(pieces, piece)
		// consume n bits from both
		if ra.t != nil && ra.w > n {
			ra = seg{ra.w - n, Extract(ra.t, ra.w-n-1, 0)}
		} else {
			ra.w -= n
		}
		if rb.t != nil && rb.w > n {
			rb = seg{rb.w - n, Extract(rb.t, rb.w-n-1, 0)}
		} else {
			rb.w -= n
		}
		if ra.w == 0 {
			i++
			if i < len(sa) {
				ra = sa[i]
			}
		}
		if rb.w == 0 {
			j++
			if j < len(sb) {
				rb = sb[j]
			}
		}
	}
	// rebuild
	var r *Term
	for _, p := range pieces {
		var t *Term
		if p.t == nil {
			t = mkZero(p.w)
		} else {
			t = p.t
		}
		if r == nil {
			r = t
		} else {
			r = Concat(r, t)
		}
	}
	return r
}

func BNot(a *Term) *Term {
	if a.IsConst() {
		return Const(a.W, ^a.Val)
	}
	if a.Op == OpBNot {
		return a.Args[0]
	}
	return intern(OpBNot, a.W, 0, 0, "", a)
}

func Neg(a *Term) *Term {
	if a.IsConst() {
		return Const(a.W, -a.Val)
	}
	return intern(OpNeg, a.W, 0, 0, "", a)
}

func Concat(hi, lo *Term) *Term {
	w := hi.W + lo.W
	if hi.IsConst() && lo.IsConst() && w <= 64 {
		return Const(w, hi.Val<<uint(lo.W)|lo.Val)
	}
	if w > 64 && isConstAny(hi) && isConstAny(lo) {
		v := new(big.Int).Lsh(constBig(hi), uint(lo.W))
		v.Or(v, constBig(lo))
		return WideConst(w, v)
	}
	// concat(extract(x,h,m+1), extract(x,m,l)) = extract(x,h,l)
	if hi.Op == OpExtract && lo.Op == OpExtract && hi.Args[0] == lo.Args[0] && hi.B == lo.A+1 {
		return Extract(hi.Args[0], hi.A, lo.B)
	}
	if hi.IsConst() && hi.Val == 0 {
		return ZExt(lo, w)
	}
	if hi.Op == OpWide && hi.Big.Sign() == 0 {
		return ZExt(lo, w)
	}
	if hi.Op == OpZExt {
		return ZExt(Concat(hi.Args[0], lo), w)
	}
	// concat(concat(a, extract(x,h,m+1)), extract(x,m,l)): merge at the seam
	if hi.Op == OpConcat && lo.Op == OpExtract {
		if in := hi.Args[1]; in.Op == OpExtract && in.Args[0] == lo.Args[0] && in.B == lo.A+1 {
			return Concat(hi.Args[0], Extract(lo.Args[0], in.A, lo.B))
		}
	}
	return intern(OpConcat, w, 0, 0, "", hi, lo)
}

func isConstAny(t *Term) bool { return t.Op == OpConst || t.Op == OpWide }
func constBig(t *Term) *big.Int {
	if t.Op == OpWide {
		return t.Big
	}
	return new(big.Int).SetUint64(t.Val)
}

func Extract(a *Term, hi, lo int) *Term {
	if hi < lo || lo < 0 || hi >= a.W {
		panic(fmt.Sprintf("Extract: bad range [%d:%d] of width %d", hi, lo, a.W))
	}
	w := hi - lo + 1
	if w == a.W {
		return a
	}
	if a.IsConst() {
		return Const(w, a.Val>>uint(lo))
	}
	if a.Op == OpWide {
		v := new(big.Int).Rsh(a.Big, uint(lo))
		m := new(big.Int).Lsh(big.NewInt(1), uint(w))
		m.Sub(m, big.NewInt(1))
		v.And(v, m)
		return WideConst(w, v)
	}
	switch a.Op {
	case OpExtract:
		return Extract(a.Args[0], a.B+hi, a.B+lo)
	case OpConcat:
		h, l := a.Args[0], a.Args[1]
		if hi < l.W {
			return Extract(l, hi, lo)
		}
		if lo >= l.W {
			return Extract(h, hi-l.W, lo-l.W)
		}
		return Concat(Extract(h, hi-l.W, 0), Extract(l, l.W-1, lo))
	case OpZExt:
		x := a.Args[0]
		if hi < x.W {
			return Extract(x, hi, lo)
		}
		if lo >= x.W {
			return mkZero(w)
		}
		return ZExt(Extract(x, x.W-1, lo), w)
	case OpSExt:
		x := a.Args[0]
		if hi < x.W {
			return Extract(x, hi, lo)
		}
	case OpBAnd, OpBOr, OpBXor:
		// push extraction through bitwise ops when one side is constant (common: masks)
		if a.Args[1].IsConst() || a.Args[0].IsConst() {
			return BinBV(a.Op, Extract(a.Args[0], hi, lo), Extract(a.Args[1], hi, lo))
		}
		if a.Args[0].Op == OpConcat || a.Args[1].Op == OpConcat || a.Args[0].Op == OpZExt || a.Args[1].Op == OpZExt {
			return BinBV(a.Op, Extract(a.Args[0], hi, lo), Extract(a.Args[1], hi, lo))
		}
	case OpIte:
		if isConstAny(a.Args[1]) && isConstAny(a.Args[2]) {
			return Ite(a.Args[0], Extract(a.Args[1], hi, lo), Extract(a.Args[2], hi, lo))
		}
	case OpAdd, OpSub, OpMul:
		if lo == 0 {
			// low bits of arithmetic depend only on low bits of operands
			return BinBV(a.Op, Extract(a.Args[0], hi, 0), Extract(a.Args[1], hi, 0))
		}
	}
	return intern(OpExtract, w, hi, lo, "", a)
}

func mkZero(w int) *Term {
	if w <= 64 {
		return Const(w, 0)
	}
	return WideConst(w, big.NewInt(0))
}

func ZExt(a *Term, w int) *Term {
	if w == a.W {
		return a
	}
	if w < a.W {
		panic("ZExt: shrinking")
	}
	if a.IsConst() && w <= 64 {
		return Const(w, a.Val)
	}
	if isConstAny(a) {
		return WideConst(w, constBig(a))
	}
	if a.Op == OpZExt {
		return ZExt(a.Args[0], w)
	}
	return intern(OpZExt, w, 0, 0, "", a)
}

func SExt(a *Term, w int) *Term {
	if w == a.W {
		return a
	}
	if w < a.W {
		panic("SExt: shrinking")
	}
	if a.IsConst() && w <= 64 {
		return Const(w, uint64(signExt(a.Val, a.W)))
	}
	if a.Op == OpZExt {
		return ZExt(a.Args[0], w)
	}
	return intern(OpSExt, w, 0, 0, "", a)
}

func Ite(c, a, b *Term) *Term {
	if c.W != 0 {
		panic("Ite: cond not bool")
	}
	if a.W != b.W {
		panic(fmt.Sprintf("Ite: width mismatch %d %d", a.W, b.W))
	}
	if c.IsConst() {
		if c.Val == 1 {
			return a
		}
		return b
	}
	if sameTerm(a, b) {
		return a
	}
	if a.W == 0 {
		if a.IsTrue() && b.IsFalse() {
			return c
		}
		if a.IsFalse() && b.IsTrue() {
			return Not(c)
		}
		if a.IsTrue() {
			return Or(c, b)
		}
		if a.IsFalse() {
			return And(Not(c), b)
		}
		if b.IsTrue() {
			return Or(Not(c), a)
		}
		if b.IsFalse() {
			return And(c, a)
		}
	}
	if c.Op == OpNot {
		return Ite(c.Args[0], b, a)
	}
	return intern(OpIte, a.W, 0, 0, "", c, a, b)
}

// Resize converts a bit-vector to width w (truncate, or extend by signedness).
func Resize(a *Term, w int, signed bool) *Term {
	switch {
	case w == a.W:
		return a
	case w < a.W:
		return Extract(a, w-1, 0)
	case signed:
		return SExt(a, w)
	default:
		return ZExt(a, w)
	}
}

// BoolToBV maps a Bool to a 1/0 bit-vector.
func BoolToBV(c *Term, w int) *Term { return Ite(c, Const(w, 1), Const(w, 0)) }

// ---------- printing ----------

func (t *Term) String() string {
	var sb strings.Builder
	t.write(&sb, nil, 0)
	return sb.String()
}

func constLit(w int, v uint64) string {
	if w%4 == 0 {
		return fmt.Sprintf("#x%0*x", w/4, v)
	}
	return fmt.Sprintf("#b%0*b", w, v)
}

func wideLit(w int, v *big.Int) string {
	return fmt.Sprintf("(_ bv%s %d)", v.Text(10), w)
}

// write prints t; named maps term ids to already-defined names.
func (t *Term) write(sb *strings.Builder, named map[*Term]string, depth int) {
	if named != nil {
		if n, ok := named[t]; ok {
			sb.WriteString(n)
			return
		}
	}
	switch t.Op {
	case OpConst:
		if t.W == 0 {
			if t.Val == 1 {
				sb.WriteString("true")
			} else {
				sb.WriteString("false")
			}
			return
		}
		sb.WriteString(constLit(t.W, t.Val))
	case OpWide:
		sb.WriteString(wideLit(t.W, t.Big))
	case OpVar:
		sb.WriteString(smtName(fmt.Sprintf("%s@%d", t.Name, t.W)))
	case OpUF:
		sb.WriteString("(")
		sb.WriteString(smtName(t.Name))
		sb.WriteString(" ")
		t.Args[0].write(sb, named, depth+1)
		sb.WriteString(")")
	case OpExtract:
		fmt.Fprintf(sb, "((_ extract %d %d) ", t.A, t.B)
		t.Args[0].write(sb, named, depth+1)
		sb.WriteString(")")
	case OpZExt:
		fmt.Fprintf(sb, "((_ zero_extend %d) ", t.W-t.Args[0].W)
		t.Args[0].write(sb, named, depth+1)
		sb.WriteString(")")
	case OpSExt:
		fmt.Fprintf(sb, "((_ sign_extend %d) ", t.W-t.Args[0].W)
		t.Args[0].write(sb, named, depth+1)
		sb.WriteString(")")
	default:
		sb.WriteString("(")
		sb.WriteString(opNames[t.Op])
		for _, a := range t.Args {
			sb.WriteString(" ")
			a.write(sb, named, depth+1)
		}
		sb.WriteString(")")
	}
}

func smtName(n string) string {
	ok := true
	for _, c := range n {
		if !(c >= 'a' && c <= 'z' || c >= 'A' && c <= 'Z' || c >= '0' && c <= '9' || c == '_' || c == '.' || c == '!' || c == '$') {
			ok = false
			break
		}
	}
	if ok && n != "" && !(n[0] >= '0' && n[0] <= '9') {
		return n
	}
	return "|" + strings.ReplaceAll(strings.ReplaceAll(n, "|", "!"), "\\", "!") + "|"
}

func sortStr(w int) string {
	if w == 0 {
		return "Bool"
	}
	return fmt.Sprintf("(_ BitVec %d)", w)
}

// Vars collects the free variables of t into set.
func (t *Term) Vars(set map[*Term]bool, seen map[*Term]bool) {
	if t.Op == OpConst || t.Op == OpWide {
		return
	}
	if seen[t] {
		return
	}
	seen[t] = true
	if t.Op == OpVar {
		set[t] = true
		return
	}
	for _, a := range t.Args {
		a.Vars(set, seen)
	}
}

// Eval evaluates t under a variable assignment (missing variables = 0).
func (t *Term) Eval(env map[string]*big.Int, memo map[*Term]*big.Int) *big.Int {
	if t.Op == OpConst {
		return new(big.Int).SetUint64(t.Val)
	}
	if t.Op == OpWide {
		return t.Big
	}
	if v, ok := memo[t]; ok {
		return v
	}
	w := t.W
	mod := func(v *big.Int, w int) *big.Int {
		if w == 0 {
			w = 1
		}
		m := new(big.Int).Lsh(big.NewInt(1), uint(w))
		v.Mod(v, m)
		return v
	}
	toSigned := func(v *big.Int, w int) *big.Int {
		r := new(big.Int).Set(v)
		if v.Bit(w-1) == 1 {
			r.Sub(r, new(big.Int).Lsh(big.NewInt(1), uint(w)))
		}
		return r
	}
	b2i := func(b bool) *big.Int {
		if b {
			return big.NewInt(1)
		}
		return big.NewInt(0)
	}
	var r *big.Int
	arg := func(i int) *big.Int { return t.Args[i].Eval(env, memo) }
	switch t.Op {
	case OpVar:
		if v, ok := env[t.Name]; ok {
			r = new(big.Int).Set(v)
		} else {
			r = big.NewInt(0)
		}
	case OpNot:
		r = b2i(arg(0).Sign() == 0)
	case OpAnd:
		r = b2i(arg(0).Sign() != 0 && arg(1).Sign() != 0)
	case OpOr:
		r = b2i(arg(0).Sign() != 0 || arg(1).Sign() != 0)
	case OpEq:
		r = b2i(arg(0).Cmp(arg(1)) == 0)
	case OpUlt:
		r = b2i(arg(0).Cmp(arg(1)) < 0)
	case OpUle:
		r = b2i(arg(0).Cmp(arg(1)) <= 0)
	case OpSlt:
		aw := t.Args[0].W
		r = b2i(toSigned(arg(0), aw).Cmp(toSigned(arg(1), aw)) < 0)
	case OpSle:
		aw := t.Args[0].W
		r = b2i(toSigned(arg(0), aw).Cmp(toSigned(arg(1), aw)) <= 0)
	case OpAdd:
		r = mod(new(big.Int).Add(arg(0), arg(1)), w)
	case OpSub:
		r = mod(new(big.Int).Sub(arg(0), arg(1)), w)
	case OpMul:
		r = mod(new(big.Int).Mul(arg(0), arg(1)), w)
	case OpUDiv:
		if arg(1).Sign() == 0 {
			r = mod(big.NewInt(-1), w)
		} else {
			r = new(big.Int).Div(arg(0), arg(1))
		}
	case OpURem:
		if arg(1).Sign() == 0 {
			r = arg(0)
		} else {
			r = new(big.Int).Mod(arg(0), arg(1))
		}
	case OpSDiv:
		x, y := toSigned(arg(0), w), toSigned(arg(1), w)
		if y.Sign() == 0 {
			if x.Sign() < 0 {
				r = big.NewInt(1)
			} else {
				r = mod(big.NewInt(-1), w)
			}
		} else {
			r = mod(new(big.Int).Quo(x, y), w)
		}
	case OpSRem:
		x, y := toSigned(arg(0), w), toSigned(arg(1), w)
		if y.Sign() == 0 {
			r = arg(0)
		} else {
			r = mod(new(big.Int).Rem(x, y), w)
		}
	case OpBAnd:
		r = new(big.Int).And(arg(0), arg(1))
	case OpBOr:
		r = new(big.Int).Or(arg(0), arg(1))
	case OpBXor:
		r = new(big.Int).Xor(arg(0), arg(1))
	case OpShl:
		if arg(1).Cmp(big.NewInt(int64(w))) >= 0 {
			r = big.NewInt(0)
		} else {
			r = mod(new(big.Int).Lsh(arg(0), uint(arg(1).Uint64())), w)
		}
	case OpLShr:
		if arg(1).Cmp(big.NewInt(int64(w))) >= 0 {
			r = big.NewInt(0)
		} else {
			r = new(big.Int).Rsh(arg(0), uint(arg(1).Uint64()))
		}
	case OpAShr:
		x := toSigned(arg(0), w)
		sh := uint(w)
		if arg(1).Cmp(big.NewInt(int64(w))) < 0 {
			sh = uint(arg(1).Uint64())
		}
		r = mod(new(big.Int).Rsh(x, sh), w)
	case OpBNot:
		r = mod(new(big.Int).Not(arg(0)), w)
	case OpNeg:
		r = mod(new(big.Int).Neg(arg(0)), w)
	case OpConcat:
		r = new(big.Int).Lsh(arg(0), uint(t.Args[1].W))
		r.Or(r, arg(1))
	case OpExtract:
		r = new(big.Int).Rsh(arg(0), uint(t.B))
		r = mod(r, t.A-t.B+1)
	case OpZExt:
		r = arg(0)
	case OpSExt:
		r = mod(toSigned(arg(0), t.Args[0].W), w)
	case OpIte:
		if arg(0).Sign() != 0 {
			r = arg(1)
		} else {
			r = arg(2)
		}
	case OpUF:
		panic("Eval: uninterpreted function application")
	default:
		panic("Eval: bad op")
	}
	memo[t] = r
	return r
}

var _ = bits.Len
