package symgo

// Engine values. Concrete shape, symbolic scalars.
//
//   *Term            bool and all integer kinds (bit-vectors of the Go width), uintptr
//   float64          float32/float64 (concrete only)
//   complex128       complex (concrete only)
//   string | SymStr  strings (SymStr when at least one byte is symbolic)
//   *Value           pointers (nil pointer: (*Value)(nil))
//   Struct, Array    aggregates (copied on load/store)
//   Slice            slices: Go slice of cells with native len/cap
//   *Map             maps (nil map: (*Map)(nil))
//   Iface            interfaces; nil interface has T == nil
//   *ssa.Function, *ssa.Builtin, *Closure, *Native   function values (nil func: (*ssa.Function)(nil))
//   *Chan            channels
//   Tuple            multi-results
//   RV, RType        reflect.Value / dynamic value behind reflect.Type
//   others           opaque native model objects

import (
	"fmt"
	"go/types"
	"strings"

	"golang.org/x/tools/go/ssa"
	"golang.org/x/tools/go/types/typeutil"
)

type Value = any

type Struct []Value
type Array []Value
type Tuple []Value

type Slice struct {
	A []Value // nil for nil slice
}

type SymStr []*Term // each W=8

type Iface struct {
	T types.Type
	V Value
}

type Closure struct {
	Fn  *ssa.Function
	Env []Value
}

// Native is a function value implemented by the engine.
type Native struct {
	Name string
	Fn   func(m *Machine, fr *Frame, args []Value) Value
}

// Unsupported aborts the current harness with a named reason.
type Unsupported struct{ Msg string }

func (u Unsupported) Error() string { return "unsupported: " + u.Msg }

func unsupported(format string, args ...any) {
	panic(Unsupported{fmt.Sprintf(format, args...)})
}

var typeHasher = typeutil.MakeHasher()

// ---------- type helpers ----------

func deref(t types.Type) types.Type {
	if p, ok := t.Underlying().(*types.Pointer); ok {
		return p.Elem()
	}
	panic(fmt.Sprintf("deref: not a pointer: %v", t))
}

func intWidth(b *types.Basic) (w int, signed bool, ok bool) {
	switch b.Kind() {
	case types.Bool, types.UntypedBool:
		return 0, false, true
	case types.Int8:
		return 8, true, true
	case types.Int16:
		return 16, true, true
	case types.Int32, types.UntypedRune:
		return 32, true, true
	case types.Int64, types.Int, types.UntypedInt:
		return 64, true, true
	case types.Uint8:
		return 8, false, true
	case types.Uint16:
		return 16, false, true
	case types.Uint32:
		return 32, false, true
	case types.Uint64, types.Uint, types.Uintptr:
		return 64, false, true
	}
	return 0, false, false
}

func isNamed(t types.Type, pkg, name string) bool {
	t = types.Unalias(t)
	n, ok := t.(*types.Named)
	if !ok {
		return false
	}
	o := n.Obj()
	return o.Name() == name && o.Pkg() != nil && o.Pkg().Path() == pkg
}

// zero returns the zero value of type t.
func (m *Machine) zero(t types.Type) Value {
	if isNamed(t, "reflect", "Value") {
		return RV{}
	}
	if isNamed(t, "math/big", "Int") {
		return BigInt{}
	}
	switch u := t.Underlying().(type) {
	case *types.Basic:
		if w, _, ok := intWidth(u); ok {
			if w == 0 {
				return FalseT
			}
			return Const(w, 0)
		}
		switch u.Kind() {
		case types.Float32, types.Float64, types.UntypedFloat:
			return float64(0)
		case types.Complex64, types.Complex128:
			return complex128(0)
		case types.String, types.UntypedString:
			return ""
		case types.UnsafePointer:
			return (*Value)(nil)
		case types.UntypedNil:
			return nil
		}
		panic(fmt.Sprintf("zero: basic %v", u))
	case *types.Pointer:
		return (*Value)(nil)
	case *types.Struct:
		s := make(Struct, u.NumFields())
		for i := range s {
			s[i] = m.zero(u.Field(i).Type())
		}
		return s
	case *types.Array:
		n := int(u.Len())
		a := make(Array, n)
		if n > 0 {
			z := m.zero(u.Elem())
			switch z.(type) {
			case Struct, Array:
				for i := range a {
					a[i] = m.zero(u.Elem())
				}
			default:
				for i := range a {
					a[i] = z
				}
			}
		}
		return a
	case *types.Slice:
		return Slice{}
	case *types.Map:
		return (*Map)(nil)
	case *types.Interface:
		return Iface{}
	case *types.Signature:
		return (*ssa.Function)(nil)
	case *types.Chan:
		return (*Chan)(nil)
	case *types.Tuple:
		if u.Len() == 1 {
			return m.zero(u.At(0).Type())
		}
		tp := make(Tuple, u.Len())
		for i := range tp {
			tp[i] = m.zero(u.At(i).Type())
		}
		return tp
	}
	panic(fmt.Sprintf("zero: %T %v", t, t))
}

// copyVal copies aggregates (value semantics); everything else is shared/immutable.
func copyVal(v Value) Value {
	switch v := v.(type) {
	case Struct:
		c := make(Struct, len(v))
		for i, x := range v {
			c[i] = copyVal(x)
		}
		return c
	case Array:
		c := make(Array, len(v))
		for i, x := range v {
			c[i] = copyVal(x)
		}
		return c
	}
	return v
}

// ---------- strings ----------

func strLen(v Value) int {
	switch s := v.(type) {
	case string:
		return len(s)
	case SymStr:
		return len(s)
	}
	panic(fmt.Sprintf("strLen: %T", v))
}

func strBytes(v Value) []*Term {
	switch s := v.(type) {
	case string:
		r := make([]*Term, len(s))
		for i := 0; i < len(s); i++ {
			r[i] = Const(8, uint64(s[i]))
		}
		return r
	case SymStr:
		return s
	}
	panic(fmt.Sprintf("strBytes: %T", v))
}

func mkStr(b []*Term) Value {
	for _, t := range b {
		if !t.IsConst() {
			return SymStr(append([]*Term(nil), b...))
		}
	}
	var sb strings.Builder
	for _, t := range b {
		sb.WriteByte(byte(t.Val))
	}
	return sb.String()
}

// bytesOf extracts byte terms from a []byte slice value.
func bytesOf(s Slice) []*Term {
	r := make([]*Term, len(s.A))
	for i, c := range s.A {
		r[i] = c.(*Term)
	}
	return r
}

func mkByteSlice(b []*Term) Slice {
	a := make([]Value, len(b))
	for i, t := range b {
		a[i] = t
	}
	return Slice{A: a}
}

func concreteBytes(b []byte) Slice {
	a := make([]Value, len(b))
	for i, x := range b {
		a[i] = Const(8, uint64(x))
	}
	return Slice{A: a}
}

// tryConcreteBytes returns the bytes if all are constant.
func tryConcreteBytes(ts []*Term) ([]byte, bool) {
	r := make([]byte, len(ts))
	for i, t := range ts {
		if !t.IsConst() {
			return nil, false
		}
		r[i] = byte(t.Val)
	}
	return r, true
}

// ---------- formatting (debug) ----------

func valString(v Value) string {
	switch v := v.(type) {
	case nil:
		return "<nil>"
	case *Term:
		if v.IsConst() {
			if v.W == 0 {
				return fmt.Sprint(v.Val == 1)
			}
			return fmt.Sprintf("%d", v.Val)
		}
		s := v.String()
		if len(s) > 60 {
			s = s[:60] + "…"
		}
		return s
	case string:
		return fmt.Sprintf("%q", v)
	case SymStr:
		return fmt.Sprintf("symstr(%d)", len(v))
	case Struct:
		var p []string
		for _, x := range v {
			p = append(p, valString(x))
		}
		return "{" + strings.Join(p, ", ") + "}"
	case Array:
		return fmt.Sprintf("array(%d)", len(v))
	case Slice:
		if v.A == nil {
			return "[]nil"
		}
		if len(v.A) <= 16 {
			var p []string
			for _, x := range v.A {
				p = append(p, valString(x))
			}
			return "[" + strings.Join(p, " ") + "]"
		}
		return fmt.Sprintf("slice(%d)", len(v.A))
	case Iface:
		if v.T == nil {
			return "iface(nil)"
		}
		return fmt.Sprintf("iface(%v: %s)", v.T, valString(v.V))
	case *Value:
		if v == nil {
			return "nilptr"
		}
		return fmt.Sprintf("&%p", v)
	case Tuple:
		var p []string
		for _, x := range v {
			p = append(p, valString(x))
		}
		return "(" + strings.Join(p, ", ") + ")"
	}
	return fmt.Sprintf("%T", v)
}
