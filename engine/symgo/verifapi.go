package symgo

// Natives behind the harness API package (internal/verif in the repository overlay).

import (
	"os"
	"fmt"
	"go/types"
	"strings"
)

const VerifPkg = "github.com/fido-device-onboard/go-fdo/internal/verif"

func strArg(v Value) string {
	s, ok := v.(string)
	if !ok {
		panic(engineBug{"verif API: name/label must be a constant string"})
	}
	return s
}

func registerVerifAPI(m *Machine) {
	registerBig(m)
	N := m.natives
	P := VerifPkg + "."
	scalar := func(w int) NativeFunc {
		return func(m *Machine, fr *Frame, a []Value) Value { return m.NewInput(strArg(a[0]), w, "input") }
	}
	N[P+"U8"] = scalar(8)
	N[P+"U16"] = scalar(16)
	N[P+"U32"] = scalar(32)
	N[P+"U64"] = scalar(64)
	N[P+"I8"] = scalar(8)
	N[P+"I16"] = scalar(16)
	N[P+"I32"] = scalar(32)
	N[P+"I64"] = scalar(64)
	N[P+"Int"] = scalar(64)
	N[P+"Uint"] = scalar(64)
	N[P+"Bool"] = scalar(0)
	N[P+"Tier"] = func(m *Machine, fr *Frame, a []Value) Value { return Const(64, uint64(m.Tier)) }
	N[P+"Bytes"] = func(m *Machine, fr *Frame, a []Value) Value {
		n := int(m.concInt(a[1].(*Term), "verif.Bytes length"))
		return mkByteSlice(m.freshBytes(strArg(a[0]), n, "input"))
	}
	N[P+"String"] = func(m *Machine, fr *Frame, a []Value) Value {
		n := int(m.concInt(a[1].(*Term), "verif.String length"))
		return mkStr(m.freshBytes(strArg(a[0]), n, "input"))
	}
	N[P+"Choose"] = func(m *Machine, fr *Frame, a []Value) Value {
		n := int(m.concInt(a[1].(*Term), "verif.Choose n"))
		if n <= 1 {
			return Const(64, 0)
		}
		t := m.NewInput(strArg(a[0]), 64, "choice")
		if t.IsConst() {
			return t
		}
		m.addPC(Ult(t, Const(64, uint64(n))))
		save := m.cfg.MaxConcretize
		m.cfg.MaxConcretize = n + 1
		v := m.Concretize(t, "choose "+t.Name)
		m.cfg.MaxConcretize = save
		return Const(64, v)
	}
	N[P+"Assume"] = func(m *Machine, fr *Frame, a []Value) Value {
		m.Assume(a[0].(*Term), "")
		return nil
	}
	N[P+"AssumeMsg"] = func(m *Machine, fr *Frame, a []Value) Value {
		m.Assume(a[0].(*Term), strArg(a[1]))
		return nil
	}
	N[P+"Assert"] = func(m *Machine, fr *Frame, a []Value) Value {
		m.Assert(a[0].(*Term), strArg(a[1]), fr)
		return nil
	}
	N[P+"Fail"] = func(m *Machine, fr *Frame, a []Value) Value {
		m.Assert(FalseT, strArg(a[0]), fr)
		return nil
	}
	N[P+"Reached"] = func(m *Machine, fr *Frame, a []Value) Value {
		m.P.Reached[strArg(a[0])] = true
		return nil
	}
	// Expect(label): the harness is vacuous unless some path reaches label.
	N[P+"Expect"] = func(m *Machine, fr *Frame, a []Value) Value {
		m.X.expect[strArg(a[0])] = true
		return nil
	}
	N[P+"NoPanic"] = func(m *Machine, fr *Frame, a []Value) Value {
		m.P.nopanic = true
		return nil
	}
	N[P+"AllowPanic"] = func(m *Machine, fr *Frame, a []Value) Value {
		m.P.nopanic = false
		return nil
	}
	N[P+"Bound"] = func(m *Machine, fr *Frame, a []Value) Value {
		m.X.bounds[strArg(a[0])] = strArg(a[1])
		return nil
	}
	N[P+"Note"] = func(m *Machine, fr *Frame, a []Value) Value {
		if os.Getenv("SYMGO_NOTES") != "" {
			fmt.Fprintln(os.Stderr, "NOTE:", strArg(a[0]))
		}
		m.X.assume[strArg(a[0])] = true
		return nil
	}
	N[P+"And"] = func(m *Machine, fr *Frame, a []Value) Value { return And(a[0].(*Term), a[1].(*Term)) }
	N[P+"Or"] = func(m *Machine, fr *Frame, a []Value) Value { return Or(a[0].(*Term), a[1].(*Term)) }
	N[P+"Not"] = func(m *Machine, fr *Frame, a []Value) Value { return Not(a[0].(*Term)) }
	N[P+"Implies"] = func(m *Machine, fr *Frame, a []Value) Value { return Implies(a[0].(*Term), a[1].(*Term)) }
	N[P+"BytesEq"] = func(m *Machine, fr *Frame, a []Value) Value {
		return bytesEqTerm(bytesOf(a[0].(Slice)), bytesOf(a[1].(Slice)))
	}
	N[P+"StrEq"] = func(m *Machine, fr *Frame, a []Value) Value { return strEq(a[0], a[1]) }
	N[P+"IsNilErr"] = func(m *Machine, fr *Frame, a []Value) Value { return Bool(a[0].(Iface).T == nil) }
	N[P+"DeepEq"] = func(m *Machine, fr *Frame, a []Value) Value { return m.deepEqual(fr, a[0], a[1], nil, 0) }
	N[P+"Observe"] = func(m *Machine, fr *Frame, a []Value) Value {
		m.P.Observed = append(m.P.Observed, strArg(a[0])+"="+m.observeString(fr, a[1]))
		return nil
	}
	oracle := func(inj bool) NativeFunc {
		return func(m *Machine, fr *Frame, a []Value) Value {
			n := int(m.concInt(a[1].(*Term), "oracle out length"))
			var args [][]*Term
			for _, x := range a[2].(Slice).A {
				args = append(args, bytesOf(x.(Slice)))
			}
			return mkByteSlice(m.Oracle(strArg(a[0]), n, inj, args))
		}
	}
	N[P+"Oracle"] = oracle(false)
	N[P+"OracleInj"] = oracle(true)
	N[P+"OracleBool"] = func(m *Machine, fr *Frame, a []Value) Value {
		var args [][]*Term
		for _, x := range a[1].(Slice).A {
			args = append(args, bytesOf(x.(Slice)))
		}
		return m.Oracle(strArg(a[0]), -1, false, args)[0]
	}
	N[P+"Fresh"] = func(m *Machine, fr *Frame, a []Value) Value {
		n := int(m.concInt(a[1].(*Term), "fresh length"))
		return mkByteSlice(m.freshBytes(strArg(a[0]), n, "rand"))
	}
	// MustBeFeasible(cond, label): violation if cond cannot hold on this path.
	N[P+"MustBeFeasible"] = func(m *Machine, fr *Frame, a []Value) Value {
		c := a[0].(*Term)
		label := strArg(a[1])
		x := m.X
		p := m.P
		if p.concrete != nil {
			if c.IsFalse() {
				x.viol[label] = &Violation{Harness: x.fn.Name(), Class: label, Label: label, Kind: "assert"}
			}
			return nil
		}
		if p.replaying() {
			return nil
		}
		x.R.Obligations++
		switch m.feasible(c) {
		case Sat:
			x.R.Discharged++
		case Unsat:
			if _, dup := x.viol[label]; !dup {
				v := &Violation{Harness: x.fn.Name(), Class: label, Label: label, Kind: "assert", PathLen: len(p.decisions), Site: fr.fn.String(), Detail: "required possibility is infeasible"}
				if m.S.Check() == Sat {
					v.Model, v.Widths = x.model(p)
				} else {
					v.Model = map[string]string{}
				}
				x.viol[label] = v
			}
		default:
			x.R.Inconclusive = appendUniq(x.R.Inconclusive, "feasibility "+label+": solver unknown")
		}
		return nil
	}
	// IsFreshRandom(b): every byte is a distinct symbol produced by the randomness model.
	// Structural predicates look at the symbolic terms; a concrete replay has no terms,
	// so the verdict of the symbolic run is recorded as a pseudo input ("struct!N") in
	// the counterexample and read back when it is replayed.
	structural := func(m *Machine, verdict func() *Term) *Term {
		name := m.freshName("struct!pred")
		if m.P.concrete != nil {
			if v, ok := m.P.concrete[name]; ok && v.Sign() == 0 {
				return FalseT
			}
			return TrueT
		}
		r := verdict()
		val := uint64(0)
		if r.IsTrue() {
			val = 1
		}
		m.P.inputs = append(m.P.inputs, Input{Name: name, T: Const(1, val), Kind: "structural"})
		return r
	}
	_ = structural
	N[P+"IsFreshRandom"] = func(m *Machine, fr *Frame, a []Value) Value {
		return structural(m, func() *Term { return isFreshRandom(a[0].(Slice)) })
	}
	N[P+"FreeOf"] = func(m *Machine, fr *Frame, a []Value) Value {
		return structural(m, func() *Term { return freeOf(a[0].(Slice), a[1].(Slice)) })
	}
	N[P+"isFreshRandomOld"] = func(m *Machine, fr *Frame, a []Value) Value {
		if m.P.concrete != nil {
			return TrueT
		}
		seen := map[*Term]bool{}
		for _, c := range a[0].(Slice).A {
			t := c.(*Term)
			if t.Op != OpVar || !strings.HasPrefix(t.Name, "rand") || seen[t] {
				return FalseT
			}
			seen[t] = true
		}
		return Bool(len(seen) > 0)
	}
	// FreeOf(wire, secret): no symbol of secret occurs in wire.
	N[P+"freeOfOld"] = func(m *Machine, fr *Frame, a []Value) Value {
		if m.P.concrete != nil {
			return TrueT
		}
		sv := map[*Term]bool{}
		seen := map[*Term]bool{}
		for _, c := range a[1].(Slice).A {
			c.(*Term).Vars(sv, seen)
		}
		wv := map[*Term]bool{}
		seen = map[*Term]bool{}
		for _, c := range a[0].(Slice).A {
			c.(*Term).Vars(wv, seen)
		}
		for v := range sv {
			if wv[v] {
				return FalseT
			}
		}
		return TrueT
	}
	N[P+"AllocBytes"] = func(m *Machine, fr *Frame, a []Value) Value { return Const(64, uint64(m.P.allocBytes)) }
	N[P+"ResetAlloc"] = func(m *Machine, fr *Frame, a []Value) Value { m.P.allocBytes = 0; return nil }
	N[P+"Symbolic"] = func(m *Machine, fr *Frame, a []Value) Value { return Bool(m.P != nil && m.P.concrete == nil) }
	// Caught(f) runs f and reports whether it panicked (interpreted panic), with its kind.
	N[P+"Caught"] = func(m *Machine, fr *Frame, a []Value) Value {
		var kind string
		panicked := false
		depth := m.depth
		func() {
			defer func() {
				if r := recover(); r != nil {
					if tp, ok := r.(TargetPanic); ok {
						panicked = true
						kind = tp.Kind + " @ " + tp.Site
						m.depth = depth
						return
					}
					panic(r)
				}
			}()
			m.call(fr, a[0], nil, 0)
		}()
		return Tuple{Bool(panicked), kind}
	}
	N[P+"SetGhost"] = func(m *Machine, fr *Frame, a []Value) Value { m.P.ghost[strArg(a[0])] = a[1]; return nil }
	N[P+"Ghost"] = func(m *Machine, fr *Frame, a []Value) Value {
		if v, ok := m.P.ghost[strArg(a[0])]; ok {
			return v
		}
		return Iface{}
	}
	// BigFixed(x, n): the low n bytes of |x| (big endian) and whether x fits in n bytes; no forking.
	N[P+"BigFixed"] = func(m *Machine, fr *Frame, a []Value) Value {
		b := m.bigGet(fr, a[0])
		n := int(m.concInt(a[1].(*Term), "BigFixed n"))
		w := maxInt(b.width(), 8*n)
		if w == 0 {
			return Tuple{Slice{A: []Value{}}, TrueT}
		}
		t := b.ext(w)
		out := make([]Value, n)
		for i := 0; i < n; i++ {
			out[i] = byteAt(t, w/8-n+i)
		}
		fits := TrueT
		if w > 8*n {
			hi := Extract(t, w-1, 8*n)
			fits = Eq(hi, mkZero(hi.W))
		}
		return Tuple{Slice{A: out}, fits}
	}
	_ = types.Typ
}

func (m *Machine) observeString(fr *Frame, v Value) string {
	iv, ok := v.(Iface)
	if !ok {
		return valString(v)
	}
	if iv.T == nil {
		return "<nil>"
	}
	switch x := iv.V.(type) {
	case *Term:
		if x.IsConst() {
			if x.W == 0 {
				return fmt.Sprint(x.Val == 1)
			}
			if isSigned(iv.T) {
				return fmt.Sprintf("%d", signExt(x.Val, x.W))
			}
			return fmt.Sprintf("%d", x.Val)
		}
		return "<sym>"
	case string:
		return fmt.Sprintf("%q", x)
	case Slice:
		if eb := sliceElemBasic(iv.T); eb != nil && eb.Kind() == types.Uint8 {
			if b, ok := tryConcreteBytes(bytesOf(x)); ok {
				if x.A == nil {
					return "nil"
				}
				return fmt.Sprintf("%x", b)
			}
			return "<sym>"
		}
	}
	if s, ok := m.tryStringer(fr, iv); ok {
		return s
	}
	return iv.T.String()
}

func isFreshRandom(sl Slice) *Term {
	seen := map[*Term]bool{}
	for _, c := range sl.A {
		t := c.(*Term)
		if t.Op != OpVar || !strings.HasPrefix(t.Name, "rand") || seen[t] {
			return FalseT
		}
		seen[t] = true
	}
	return Bool(len(seen) > 0)
}

func freeOf(wire, secret Slice) *Term {
	sv := map[*Term]bool{}
	seen := map[*Term]bool{}
	for _, c := range secret.A {
		c.(*Term).Vars(sv, seen)
	}
	wv := map[*Term]bool{}
	seen = map[*Term]bool{}
	for _, c := range wire.A {
		c.(*Term).Vars(wv, seen)
	}
	for v := range sv {
		if wv[v] {
			return FalseT
		}
	}
	return TrueT
}
