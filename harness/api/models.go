package verif

// Go-source models of the cryptographic environment. Under the symbolic engine
// the standard-library functions named in the engine's replacement table
// (engine/symgo/repl.go) are redirected to the M_* functions below, so that the
// repository code runs unchanged on top of idealised primitives:
//
//   hash / HMAC      injective uninterpreted functions of (algorithm, [key,] content)
//   signatures       deterministic ideal signatures: the only accepted signature of
//                    digest d under public key K is SIG(K, d)
//   keys             "model DER": one kind byte followed by the raw key material, so
//                    parsing is byte copying and therefore injective
//   randomness       fresh symbolic bytes
//
// None of this is compiled into a meaning natively (oracles return arbitrary
// bytes there); harnesses that use the models are replayed in the engine only.

import (
	"crypto"
	"crypto/ecdh"
	"crypto/ecdsa"
	"crypto/elliptic"
	"crypto/rsa"
	"crypto/x509"
	"encoding/base64"
	"errors"
	"hash"
	"io"
	"math/big"
	"os"
	"reflect"
	"unsafe"
)

// ---------- hashes ----------

type ModelHash struct {
	Alg  crypto.Hash
	Key  []byte // non-nil: HMAC
	Mac  bool
	Data []byte
}

func hashName(h crypto.Hash) string {
	switch h {
	case crypto.SHA256:
		return "sha256"
	case crypto.SHA384:
		return "sha384"
	case crypto.SHA512:
		return "sha512"
	case crypto.SHA1:
		return "sha1"
	}
	return "hash?"
}

func hashSize(h crypto.Hash) int {
	switch h {
	case crypto.SHA256:
		return 32
	case crypto.SHA384:
		return 48
	case crypto.SHA512:
		return 64
	case crypto.SHA1:
		return 20
	}
	return 32
}

func (m *ModelHash) Write(p []byte) (int, error) {
	m.Data = append(m.Data, p...)
	return len(p), nil
}
func (m *ModelHash) Sum(b []byte) []byte {
	var out []byte
	if m.Mac {
		out = OracleInj("hmac-"+hashName(m.Alg), hashSize(m.Alg), m.Key, m.Data)
	} else {
		out = OracleInj(hashName(m.Alg), hashSize(m.Alg), m.Data)
	}
	return append(b, out...)
}
func (m *ModelHash) Reset()         { m.Data = nil }
func (m *ModelHash) Size() int      { return hashSize(m.Alg) }
func (m *ModelHash) BlockSize() int { return 64 }

func M_HashNew(h crypto.Hash) hash.Hash {
	if !M_HashAvailable(h) {
		panic("crypto: requested hash function #" + itoa(int(h)) + " is unavailable")
	}
	return &ModelHash{Alg: h}
}
func M_HashAvailable(h crypto.Hash) bool {
	return h == crypto.SHA256 || h == crypto.SHA384 || h == crypto.SHA512 || h == crypto.SHA1
}
func M_SHA256New() hash.Hash { return &ModelHash{Alg: crypto.SHA256} }
func M_SHA384New() hash.Hash { return &ModelHash{Alg: crypto.SHA384} }
func M_SHA512New() hash.Hash { return &ModelHash{Alg: crypto.SHA512} }
func M_SHA1New() hash.Hash   { return &ModelHash{Alg: crypto.SHA1} }
func M_Sum256(b []byte) (r [32]byte) {
	copy(r[:], OracleInj("sha256", 32, b))
	return
}
func M_Sum384(b []byte) (r [48]byte) {
	copy(r[:], OracleInj("sha384", 48, b))
	return
}

func M_HmacNew(h func() hash.Hash, key []byte) hash.Hash {
	inner, ok := h().(*ModelHash)
	if !ok {
		panic("model hmac.New: unknown hash constructor")
	}
	return &ModelHash{Alg: inner.Alg, Key: append([]byte{}, key...), Mac: true}
}

func itoa(n int) string {
	if n == 0 {
		return "0"
	}
	neg := n < 0
	if neg {
		n = -n
	}
	var b []byte
	for n > 0 {
		b = append([]byte{byte('0' + n%10)}, b...)
		n /= 10
	}
	if neg {
		return "-" + string(b)
	}
	return string(b)
}

// ---------- randomness ----------

type modelRand struct{}

func (modelRand) Read(p []byte) (int, error) {
	copy(p, Fresh("rand", len(p)))
	if Ghost("rand-top-nonzero") != nil && len(p) > 0 {
		// bound: random values have no leading zero byte (stated by the harness that sets the flag)
		Assume(p[0] != 0)
	}
	return len(p), nil
}

// M_RandReader is installed as crypto/rand.Reader.
var M_RandReader io.Reader = modelRand{}

func M_RandRead(p []byte) (int, error) { return modelRand{}.Read(p) }

// ---------- elliptic curves ----------

type ModelCurve struct{ P *elliptic.CurveParams }

func (c *ModelCurve) Params() *elliptic.CurveParams { return c.P }
func (c *ModelCurve) IsOnCurve(x, y *big.Int) bool  { return true }
func (c *ModelCurve) Add(x1, y1, x2, y2 *big.Int) (*big.Int, *big.Int) {
	panic("model curve: Add")
}
func (c *ModelCurve) Double(x1, y1 *big.Int) (*big.Int, *big.Int) { panic("model curve: Double") }
func (c *ModelCurve) ScalarMult(x1, y1 *big.Int, k []byte) (*big.Int, *big.Int) {
	panic("model curve: ScalarMult")
}
func (c *ModelCurve) ScalarBaseMult(k []byte) (*big.Int, *big.Int) {
	panic("model curve: ScalarBaseMult")
}

func mkCurve(name string, bits int) *ModelCurve {
	n := make([]byte, (bits+7)/8)
	for i := range n {
		n[i] = 0xff
	}
	if bits%8 != 0 {
		n[0] = byte(1<<uint(bits%8)) - 1
	}
	return &ModelCurve{P: &elliptic.CurveParams{Name: name, BitSize: bits, N: new(big.Int).SetBytes(n), P: new(big.Int).SetBytes(n)}}
}

var (
	mP224 *ModelCurve
	mP256 *ModelCurve
	mP384 *ModelCurve
	mP521 *ModelCurve
)

func curves() {
	if mP256 == nil {
		mP224 = mkCurve("P-224", 224)
		mP256 = mkCurve("P-256", 256)
		mP384 = mkCurve("P-384", 384)
		mP521 = mkCurve("P-521", 521)
	}
}
func M_P224() elliptic.Curve { curves(); return mP224 }
func M_P256() elliptic.Curve { curves(); return mP256 }
func M_P384() elliptic.Curve { curves(); return mP384 }
func M_P521() elliptic.Curve { curves(); return mP521 }

// ---------- keys ----------

// Kind bytes of the model key encoding.
const (
	KindP256    = 1
	KindP384    = 2
	KindRSA2048 = 3
	KindRSA3072 = 4
	KindP521    = 5
	KindRSA4096 = 6
	KindRSA1024 = 7
)

func coordLen(c elliptic.Curve) int { return (c.Params().BitSize + 7) / 8 }

// NewECPub builds an ECDSA public key with the given (symbolic) coordinates.
func NewECPub(kind int, xy []byte) *ecdsa.PublicKey {
	var c elliptic.Curve
	switch kind {
	case KindP256:
		c = M_P256()
	case KindP384:
		c = M_P384()
	case KindP521:
		c = M_P521()
	default:
		panic("NewECPub: kind")
	}
	n := coordLen(c)
	if len(xy) != 2*n {
		panic("NewECPub: coordinate length")
	}
	return &ecdsa.PublicKey{Curve: c, X: new(big.Int).SetBytes(xy[:n]), Y: new(big.Int).SetBytes(xy[n:])}
}

// NewRSAPub builds an RSA public key whose modulus is the given bytes (top bit forced).
func NewRSAPub(modulus []byte) *rsa.PublicKey {
	m := append([]byte{}, modulus...)
	m[0] |= 0x80
	return &rsa.PublicKey{N: new(big.Int).SetBytes(m), E: 65537}
}

// KeyID is the canonical byte identity of a public key (kind byte + material).
func KeyID(pub crypto.PublicKey) []byte {
	switch k := pub.(type) {
	case *ecdsa.PublicKey:
		n := coordLen(k.Curve)
		kind := byte(KindP256)
		switch k.Curve.Params().BitSize {
		case 384:
			kind = KindP384
		case 521:
			kind = KindP521
		}
		out := make([]byte, 1+2*n)
		out[0] = kind
		k.X.FillBytes(out[1 : 1+n])
		k.Y.FillBytes(out[1+n:])
		return out
	case *rsa.PublicKey:
		n := (k.N.BitLen() + 7) / 8
		kind := byte(KindRSA2048)
		if n == 384 {
			kind = KindRSA3072
		}
		out := make([]byte, 1+n)
		out[0] = kind
		k.N.FillBytes(out[1:])
		return out
	case nil:
		return []byte{0}
	}
	return []byte{0xff}
}

// ParseKeyID inverts KeyID ("model DER" of a public key).
func ParseKeyID(der []byte) (crypto.PublicKey, error) {
	if len(der) == 0 {
		return nil, errors.New("model key: empty")
	}
	switch der[0] {
	case KindP256:
		if len(der) != 65 {
			return nil, errors.New("model key: bad P-256 length")
		}
		return NewECPub(KindP256, der[1:]), nil
	case KindP384:
		if len(der) != 97 {
			return nil, errors.New("model key: bad P-384 length")
		}
		return NewECPub(KindP384, der[1:]), nil
	case KindRSA2048:
		if len(der) != 257 {
			return nil, errors.New("model key: bad RSA-2048 length")
		}
		return &rsa.PublicKey{N: new(big.Int).SetBytes(der[1:]), E: 65537}, nil
	case KindRSA3072:
		if len(der) != 385 {
			return nil, errors.New("model key: bad RSA-3072 length")
		}
		return &rsa.PublicKey{N: new(big.Int).SetBytes(der[1:]), E: 65537}, nil
	case KindRSA1024:
		if len(der) != 129 {
			return nil, errors.New("model key: bad RSA-1024 length")
		}
		m := append([]byte{}, der[1:]...)
		m[0] |= 0x80
		return &rsa.PublicKey{N: new(big.Int).SetBytes(m), E: 65537}, nil
	case KindRSA4096:
		if len(der) != 513 {
			return nil, errors.New("model key: bad RSA-4096 length")
		}
		m := append([]byte{}, der[1:]...)
		m[0] |= 0x80
		return &rsa.PublicKey{N: new(big.Int).SetBytes(m), E: 65537}, nil
	}
	return nil, errors.New("model key: unknown kind")
}

func M_ParsePKIXPublicKey(der []byte) (any, error) {
	k, err := ParseKeyID(der)
	if err != nil {
		return nil, err
	}
	return k, nil
}
func M_MarshalPKIXPublicKey(pub any) ([]byte, error) {
	id := KeyID(pub)
	if len(id) == 1 {
		return nil, errors.New("model key: unsupported public key")
	}
	return id, nil
}

// ---------- signatures ----------

// SigLen is the signature length for a key (ECDSA: r||s, RSA: modulus size).
func SigLen(pub crypto.PublicKey) int {
	switch k := pub.(type) {
	case *ecdsa.PublicKey:
		return 2 * coordLen(k.Curve)
	case *rsa.PublicKey:
		return (k.N.BitLen() + 7) / 8
	}
	return 0
}

// IdealSig is the one signature that verifies for (scheme, key, digest).
func IdealSig(scheme string, pub crypto.PublicKey, digest []byte) []byte {
	return OracleInj("sig-"+scheme, SigLen(pub), KeyID(pub), digest)
}

func M_EcdsaVerify(pub *ecdsa.PublicKey, digest []byte, r, s *big.Int) bool {
	n := coordLen(pub.Curve)
	rb, rfits := BigFixed(r, n)
	sb, sfits := BigFixed(s, n)
	if !And(rfits, sfits) {
		return false // r or s does not fit the curve size
	}
	return BytesEq(append(rb, sb...), IdealSig("ecdsa", pub, digest))
}

// M_EcdsaVerifyASN1: model ASN.1 signature = 0x30 || r || s (fixed width).
func M_EcdsaVerifyASN1(pub *ecdsa.PublicKey, digest, sig []byte) bool {
	n := coordLen(pub.Curve)
	if len(sig) != 1+2*n || sig[0] != 0x30 {
		return false
	}
	return BytesEq(sig[1:], IdealSig("ecdsa", pub, digest))
}

var errVerification = errors.New("crypto/rsa: verification error")

func M_RsaVerifyPKCS1v15(pub *rsa.PublicKey, h crypto.Hash, digest, sig []byte) error {
	if len(sig) != SigLen(pub) {
		return errVerification
	}
	if !BytesEq(sig, IdealSig("rsa-pkcs1-"+hashName(h), pub, digest)) {
		return errVerification
	}
	return nil
}
func M_RsaVerifyPSS(pub *rsa.PublicKey, h crypto.Hash, digest, sig []byte, opts *rsa.PSSOptions) error {
	if len(sig) != SigLen(pub) {
		return errVerification
	}
	if !BytesEq(sig, IdealSig("rsa-pss-"+hashName(h), pub, digest)) {
		return errVerification
	}
	return nil
}

// ModelSigner is a crypto.Signer producing ideal signatures for its public key.
type ModelSigner struct {
	Pub crypto.PublicKey
}

func (s *ModelSigner) Public() crypto.PublicKey { return s.Pub }
func (s *ModelSigner) Sign(_ io.Reader, digest []byte, opts crypto.SignerOpts) ([]byte, error) {
	switch k := s.Pub.(type) {
	case *ecdsa.PublicKey:
		// ASN.1 form of the model: 0x30 || r || s
		return append([]byte{0x30}, IdealSig("ecdsa", k, digest)...), nil
	case *rsa.PublicKey:
		if opts == nil {
			return nil, errors.New("model rsa sign: nil opts")
		}
		if _, pss := opts.(*rsa.PSSOptions); pss {
			return IdealSig("rsa-pss-"+hashName(opts.HashFunc()), k, digest), nil
		}
		return IdealSig("rsa-pkcs1-"+hashName(opts.HashFunc()), k, digest), nil
	}
	return nil, errors.New("model signer: unsupported key")
}

// M_Asn1Unmarshal understands exactly the model ECDSA signature (0x30 || r || s)
// into a struct{R, S *big.Int}.
func M_Asn1Unmarshal(b []byte, val any) ([]byte, error) {
	rv := reflect.ValueOf(val)
	if rv.Kind() != reflect.Pointer || rv.Elem().Kind() != reflect.Struct || rv.Elem().NumField() != 2 {
		return nil, errors.New("model asn1: unsupported target")
	}
	if len(b) < 3 || b[0] != 0x30 || (len(b)-1)%2 != 0 {
		return nil, errors.New("model asn1: malformed signature")
	}
	n := (len(b) - 1) / 2
	rv.Elem().Field(0).Set(reflect.ValueOf(new(big.Int).SetBytes(b[1 : 1+n])))
	rv.Elem().Field(1).Set(reflect.ValueOf(new(big.Int).SetBytes(b[1+n:])))
	return nil, nil
}

// HashOf / HmacOf: the model digest of a byte string (for reference predicates).
func HashOf(h crypto.Hash, data []byte) []byte {
	return OracleInj(hashName(h), hashSize(h), data)
}
func HmacOf(h crypto.Hash, key, data []byte) []byte {
	return OracleInj("hmac-"+hashName(h), hashSize(h), key, data)
}

// ---------- symmetric ciphers ----------
//
// Every cipher is an injective uninterpreted function of (key, iv/nonce,
// plaintext[, aad]); decryption returns the plaintext of a logged encryption
// with the same key/iv/ciphertext, else an unconstrained value (CTR/CBC) or an
// authentication failure (AEAD). Documented stdlib panics on wrong IV/nonce or
// block lengths are reproduced.

type ModelBlock struct{ Key []byte }

func (b *ModelBlock) BlockSize() int { return 16 }
func (b *ModelBlock) Encrypt(dst, src []byte) {
	if len(src) < 16 || len(dst) < 16 {
		panic("crypto/aes: input not full block")
	}
	copy(dst, OracleInj("aes-block-enc", 16, b.Key, src[:16]))
}
func (b *ModelBlock) Decrypt(dst, src []byte) {
	if len(src) < 16 || len(dst) < 16 {
		panic("crypto/aes: input not full block")
	}
	copy(dst, Oracle("aes-block-dec", 16, b.Key, src[:16]))
}

func M_AesNewCipher(key []byte) (cipherBlock, error) {
	switch len(key) {
	case 16, 24, 32:
		return &ModelBlock{Key: append([]byte{}, key...)}, nil
	}
	return nil, errors.New("crypto/aes: invalid key size " + itoa(len(key)))
}

// cipherBlock mirrors crypto/cipher.Block (avoids importing crypto/cipher types by name here).
type cipherBlock interface {
	BlockSize() int
	Encrypt(dst, src []byte)
	Decrypt(dst, src []byte)
}

type encRec struct {
	mode             string
	key, iv, pt, ad  []byte
	ct               []byte
}

var encLog []encRec

func logEnc(mode string, key, iv, pt, ad, ct []byte) {
	encLog = append(encLog, encRec{mode, append([]byte{}, key...), append([]byte{}, iv...), append([]byte{}, pt...), append([]byte{}, ad...), append([]byte{}, ct...)})
}

// shapePlain: when the harness sets the ghost flag "plainshape", decryption
// results that are not tied to a logged encryption are assumed to be one
// well-formed CBOR byte string spanning the whole plaintext (with one byte of
// valid padding for CBC). This cuts the parse of garbage plaintext, which is
// not the subject of the harnesses that set the flag (stated in their bounds).
func shapePlain(mode string, pt []byte) {
	if Ghost("plainshape") == nil || len(pt) == 0 {
		return
	}
	n := len(pt)
	if mode == "cbc" {
		if n < 2 {
			return
		}
		Assume(pt[n-1] == 1)
		n--
	}
	if n-1 < 24 {
		Assume(pt[0] == byte(0x40+n-1))
	} else {
		Assume(pt[0] == 0x58 && int(pt[1]) == n-2)
	}
}

// tieDec constrains a decryption result to invert every logged encryption.
func tieDec(mode string, key, iv, ct, ad, pt []byte) {
	shapePlain(mode, pt)
	for _, r := range encLog {
		if r.mode != mode || len(r.key) != len(key) || len(r.iv) != len(iv) || len(r.ct) != len(ct) || len(r.ad) != len(ad) || len(r.pt) != len(pt) {
			continue
		}
		same := And(And(BytesEq(r.key, key), BytesEq(r.iv, iv)), And(BytesEq(r.ct, ct), BytesEq(r.ad, ad)))
		Assume(Implies(same, BytesEq(pt, r.pt)))
	}
}

func blockKey(b cipherBlock) []byte {
	if mb, ok := b.(*ModelBlock); ok {
		return mb.Key
	}
	panic("model cipher: unknown block implementation")
}

// --- AEAD (GCM) ---

type ModelGCM struct{ Key []byte }

func (g *ModelGCM) NonceSize() int { return 12 }
func (g *ModelGCM) Overhead() int  { return 16 }
func (g *ModelGCM) Seal(dst, nonce, plaintext, ad []byte) []byte {
	if len(nonce) != 12 {
		panic("crypto/cipher: incorrect nonce length given to GCM")
	}
	pt := append([]byte{}, plaintext...)
	ct := OracleInj("gcm-seal", len(pt)+16, g.Key, nonce, pt, ad)
	logEnc("gcm", g.Key, nonce, pt, ad, ct)
	return append(dst, ct...)
}

var errOpen = errors.New("cipher: message authentication failed")

func (g *ModelGCM) Open(dst, nonce, ciphertext, ad []byte) ([]byte, error) {
	if len(nonce) != 12 {
		panic("crypto/cipher: incorrect nonce length given to GCM")
	}
	if len(ciphertext) < 16 {
		return nil, errOpen
	}
	ct := append([]byte{}, ciphertext...)
	pt := Oracle("gcm-open", len(ct)-16, g.Key, nonce, ct, ad)
	tieDec("gcm", g.Key, nonce, ct, ad, pt)
	if !BytesEq(ct, OracleInj("gcm-seal", len(ct), g.Key, nonce, pt, ad)) {
		return nil, errOpen
	}
	return append(dst, pt...), nil
}

func M_NewGCM(b cipherBlock) (cipherAEAD, error) { return &ModelGCM{Key: blockKey(b)}, nil }

type cipherAEAD interface {
	NonceSize() int
	Overhead() int
	Seal(dst, nonce, plaintext, additionalData []byte) []byte
	Open(dst, nonce, ciphertext, additionalData []byte) ([]byte, error)
}

// --- CTR ---

type ModelCTR struct{ Key, IV []byte }

func (c *ModelCTR) XORKeyStream(dst, src []byte) {
	if len(dst) < len(src) {
		panic("crypto/cipher: output smaller than input")
	}
	in := append([]byte{}, src...)
	// CTR is an involution: model both directions by one injective function and its logged inverse
	out := OracleInj("ctr", len(in), c.Key, c.IV, in)
	for _, r := range encLog {
		if r.mode != "ctr" || len(r.key) != len(c.Key) || len(r.ct) != len(in) {
			continue
		}
		same := And(And(BytesEq(r.key, c.Key), BytesEq(r.iv, c.IV)), BytesEq(r.ct, in))
		Assume(Implies(same, BytesEq(out, r.pt)))
	}
	logEnc("ctr", c.Key, c.IV, in, nil, out)
	if Ghost("encrypting") == nil {
		shapePlain("ctr", out)
	}
	copy(dst, out)
}

func M_NewCTR(b cipherBlock, iv []byte) cipherStream {
	if len(iv) != b.BlockSize() {
		panic("cipher.NewCTR: IV length must equal block size")
	}
	return &ModelCTR{Key: blockKey(b), IV: append([]byte{}, iv...)}
}

type cipherStream interface{ XORKeyStream(dst, src []byte) }

// --- CBC ---

type ModelCBC struct {
	Key, IV []byte
	Dec     bool
}

func (c *ModelCBC) BlockSize() int { return 16 }
func (c *ModelCBC) CryptBlocks(dst, src []byte) {
	if len(src)%16 != 0 {
		panic("crypto/cipher: input not full blocks")
	}
	if len(dst) < len(src) {
		panic("crypto/cipher: output smaller than input")
	}
	if len(src) == 0 {
		return
	}
	in := append([]byte{}, src...)
	if !c.Dec {
		out := OracleInj("cbc-enc", len(in), c.Key, c.IV, in)
		logEnc("cbc", c.Key, c.IV, in, nil, out)
		copy(dst, out)
		return
	}
	out := Oracle("cbc-dec", len(in), c.Key, c.IV, in)
	tieDec("cbc", c.Key, c.IV, in, nil, out)
	copy(dst, out)
}

type cipherBlockMode interface {
	BlockSize() int
	CryptBlocks(dst, src []byte)
}

func M_NewCBCEncrypter(b cipherBlock, iv []byte) cipherBlockMode {
	if len(iv) != b.BlockSize() {
		panic("cipher.NewCBCEncrypter: IV length must equal block size")
	}
	return &ModelCBC{Key: blockKey(b), IV: append([]byte{}, iv...)}
}
func M_NewCBCDecrypter(b cipherBlock, iv []byte) cipherBlockMode {
	if len(iv) != b.BlockSize() {
		panic("cipher.NewCBCDecrypter: IV length must equal block size")
	}
	return &ModelCBC{Key: blockKey(b), IV: append([]byte{}, iv...), Dec: true}
}

// ---------- crypto/ecdh ----------
//
// A private key is n fresh bytes D; its public point is 0x04 || PUB(D) with PUB
// injective; the shared secret is a symmetric function of the two public
// points (dh(a, pub b) = dh(b, pub a)). *ecdh.PrivateKey / *ecdh.PublicKey
// values are pointers to the model structs below (the repository code only
// passes them around and calls the methods replaced here).

type ModelECDHCurve struct {
	Name string
	N    int
}

type ModelECDHPriv struct {
	C   *ModelECDHCurve
	D   []byte
	Pub *ModelECDHPub
}

type ModelECDHPub struct {
	C *ModelECDHCurve
	B []byte // 0x04 || X || Y
}

var mECDH256, mECDH384 *ModelECDHCurve

func M_ECDH_P256() any {
	if mECDH256 == nil {
		mECDH256 = &ModelECDHCurve{Name: "P-256", N: 32}
	}
	return mECDH256
}
func M_ECDH_P384() any {
	if mECDH384 == nil {
		mECDH384 = &ModelECDHCurve{Name: "P-384", N: 48}
	}
	return mECDH384
}

func (c *ModelECDHCurve) mkPriv(d []byte) *ecdh.PrivateKey {
	pub := &ModelECDHPub{C: c, B: append([]byte{4}, OracleInj("ecdh-pub-"+c.Name, 2*c.N, d)...)}
	// a generated key's public point is on the curve
	Assume(OracleBool("ecdh-oncurve-"+c.Name, pub.B))
	return (*ecdh.PrivateKey)(unsafe.Pointer(&ModelECDHPriv{C: c, D: append([]byte{}, d...), Pub: pub}))
}

func (c *ModelECDHCurve) GenerateKey(rand io.Reader) (*ecdh.PrivateKey, error) {
	d := make([]byte, c.N)
	if _, err := io.ReadFull(rand, d); err != nil {
		return nil, err
	}
	return c.mkPriv(d), nil
}
func (c *ModelECDHCurve) NewPrivateKey(key []byte) (*ecdh.PrivateKey, error) {
	if len(key) != c.N {
		return nil, errors.New("crypto/ecdh: invalid private key size")
	}
	return c.mkPriv(key), nil
}
func (c *ModelECDHCurve) NewPublicKey(key []byte) (*ecdh.PublicKey, error) {
	if len(key) != 1+2*c.N || key[0] != 4 {
		return nil, errors.New("crypto/ecdh: invalid public key")
	}
	// point validation (on-curve check) may reject: arbitrary verdict per encoding
	if !OracleBool("ecdh-oncurve-"+c.Name, key) {
		return nil, errors.New("crypto/ecdh: invalid public key")
	}
	return (*ecdh.PublicKey)(unsafe.Pointer(&ModelECDHPub{C: c, B: append([]byte{}, key...)})), nil
}

func ecPriv(k *ecdh.PrivateKey) *ModelECDHPriv { return (*ModelECDHPriv)(unsafe.Pointer(k)) }
func ecPub(k *ecdh.PublicKey) *ModelECDHPub    { return (*ModelECDHPub)(unsafe.Pointer(k)) }

func M_ECDHPrivBytes(k *ecdh.PrivateKey) []byte { return append([]byte{}, ecPriv(k).D...) }
func M_ECDHPrivPublicKey(k *ecdh.PrivateKey) *ecdh.PublicKey {
	return (*ecdh.PublicKey)(unsafe.Pointer(ecPriv(k).Pub))
}
func M_ECDHPrivCurve(k *ecdh.PrivateKey) any       { return ecPriv(k).C }
func M_ECDHPubBytes(k *ecdh.PublicKey) []byte      { return append([]byte{}, ecPub(k).B...) }
func M_ECDHPrivECDH(k *ecdh.PrivateKey, remote *ecdh.PublicKey) ([]byte, error) {
	p, r := ecPriv(k), ecPub(remote)
	if p.C != r.C {
		return nil, errors.New("crypto/ecdh: private key and public key curves do not match")
	}
	// own public points are valid by construction
	Assume(OracleBool("ecdh-oncurve-"+p.C.Name, p.Pub.B))
	s1 := Oracle("ecdh-shared-"+p.C.Name, p.C.N, p.Pub.B, r.B)
	s2 := Oracle("ecdh-shared-"+p.C.Name, p.C.N, r.B, p.Pub.B)
	Assume(BytesEq(s1, s2))
	return s1, nil
}

// ---------- RSA-OAEP ----------

type oaepRec struct{ key, msg, ct []byte }

var oaepLog []oaepRec

var errDecryption = errors.New("crypto/rsa: decryption error")

func M_EncryptOAEP(h hash.Hash, random io.Reader, pub *rsa.PublicKey, msg, label []byte) ([]byte, error) {
	if pub == nil {
		panic("runtime error: invalid memory address or nil pointer dereference (rsa.EncryptOAEP with nil public key)")
	}
	k := (pub.N.BitLen() + 7) / 8
	if len(msg) > k-2*h.Size()-2 {
		return nil, errors.New("crypto/rsa: message too long for RSA key size")
	}
	seed := Fresh("oaep-seed", 4)
	ct := OracleInj("oaep", k, KeyID(pub), msg, seed)
	oaepLog = append(oaepLog, oaepRec{KeyID(pub), append([]byte{}, msg...), ct})
	return ct, nil
}

func M_DecryptOAEP(h hash.Hash, random io.Reader, priv *rsa.PrivateKey, ct, label []byte) ([]byte, error) {
	if priv == nil {
		panic("runtime error: invalid memory address or nil pointer dereference (rsa.DecryptOAEP with nil private key)")
	}
	k := (priv.N.BitLen() + 7) / 8
	if len(ct) != k {
		return nil, errDecryption
	}
	id := KeyID(&priv.PublicKey)
	for _, r := range oaepLog {
		if len(r.ct) == len(ct) && len(r.key) == len(id) && And(BytesEq(r.ct, ct), BytesEq(r.key, id)) {
			return append([]byte{}, r.msg...), nil
		}
	}
	// a ciphertext nobody in this run produced: padding check fails or yields some message
	if !OracleBool("oaep-valid", id, ct) {
		return nil, errDecryption
	}
	n := 32
	if len(oaepLog) > 0 {
		n = len(oaepLog[len(oaepLog)-1].msg)
	}
	return Oracle("oaep-dec", n, id, ct), nil
}

// NewRSAPriv builds a private key handle for a model public key.
func NewRSAPriv(pub *rsa.PublicKey) *rsa.PrivateKey { return &rsa.PrivateKey{PublicKey: *pub} }

func NewBig(b []byte) *big.Int      { return new(big.Int).SetBytes(b) }
func BigSub(a, b *big.Int) *big.Int { return new(big.Int).Sub(a, b) }

// ---------- X.509 (model encoding) ----------
//
// Model certificate DER = KeyID(subject public key) || 4 serial bytes. Parsing is
// byte copying, hence injective; chain validation is an arbitrary verdict.

func certKeyLen(der []byte) int {
	if len(der) == 0 {
		return -1
	}
	switch der[0] {
	case KindP256:
		return 65
	case KindP384:
		return 97
	case KindRSA2048:
		return 257
	case KindRSA3072:
		return 385
	}
	return -1
}

func M_ParseCertificate(der []byte) (*x509.Certificate, error) {
	kl := certKeyLen(der)
	if kl < 0 || len(der) != kl+4 {
		return nil, errors.New("x509: malformed certificate (model)")
	}
	pub, err := ParseKeyID(der[:kl])
	if err != nil {
		return nil, err
	}
	return &x509.Certificate{Raw: append([]byte{}, der...), PublicKey: pub}, nil
}

// NewCert builds a model certificate for a public key with 4 (symbolic) serial bytes.
func NewCert(pub crypto.PublicKey, serial []byte) *x509.Certificate {
	raw := append(KeyID(pub), serial...)
	return &x509.Certificate{Raw: raw, PublicKey: pub}
}

func M_ParseCertificateRequest(der []byte) (*x509.CertificateRequest, error) {
	kl := certKeyLen(der)
	if kl < 0 || len(der) != kl+4 {
		return nil, errors.New("x509: malformed certificate request (model)")
	}
	pub, err := ParseKeyID(der[:kl])
	if err != nil {
		return nil, err
	}
	return &x509.CertificateRequest{Raw: append([]byte{}, der...), PublicKey: pub}, nil
}

// ---------- in-memory file system (models *os.File for the FSIM temp-file/rename idiom) ----------

// ModelFile stands in for an *os.File: the pointer handed to the code under test
// is a *ModelFile in disguise (the code only calls the replaced methods on it).
type ModelFile struct {
	Path   string
	Data   []byte
	Closed bool
}

// MFS is the set of existing files by path.
var MFS = map[string]*ModelFile{}
var mfsTemps int

// FSReset empties the model file system (harness start).
func FSReset() {
	MFS = map[string]*ModelFile{}
	mfsTemps = 0
}

// FSFile returns the content of an existing file.
func FSFile(path string) ([]byte, bool) {
	f, ok := MFS[path]
	if !ok {
		return nil, false
	}
	return f.Data, true
}

// FSCount is the number of existing files.
func FSCount() int { return len(MFS) }

func mfile(f *os.File) *ModelFile { return (*ModelFile)(unsafe.Pointer(f)) }

func M_CreateTemp(dir, pattern string) (*os.File, error) {
	mfsTemps++
	mf := &ModelFile{Path: "/tmp/" + pattern + "." + string(rune('0'+mfsTemps))}
	MFS[mf.Path] = mf
	return (*os.File)(unsafe.Pointer(mf)), nil
}
func M_FileWrite(f *os.File, b []byte) (int, error) {
	mf := mfile(f)
	if mf.Closed {
		return 0, os.ErrClosed
	}
	mf.Data = append(mf.Data, b...)
	return len(b), nil
}
func M_FileName(f *os.File) string { return mfile(f).Path }
func M_FileClose(f *os.File) error {
	mf := mfile(f)
	if mf.Closed {
		return os.ErrClosed
	}
	mf.Closed = true
	return nil
}
func M_Remove(name string) error {
	if _, ok := MFS[name]; !ok {
		return os.ErrNotExist
	}
	delete(MFS, name)
	return nil
}
func M_Rename(oldpath, newpath string) error {
	mf, ok := MFS[oldpath]
	if !ok {
		return os.ErrNotExist
	}
	delete(MFS, oldpath)
	MFS[newpath] = mf // (*os.File).Name keeps reporting the name the file was opened with
	return nil
}

// ---------- base64 (session tokens) ----------
// Encoding is modelled as the identity between byte strings and token strings:
// it is a bijection onto the well-formed tokens, and that is all the token check
// relies on. Malformed tokens (which the real decoder rejects with an error that
// the caller turns into "no session") are therefore outside the model.
func M_B64Encode(enc *base64.Encoding, b []byte) string          { return string(b) }
func M_B64Decode(enc *base64.Encoding, s string) ([]byte, error) { return []byte(s), nil }
