// Package verif is the harness API of the go-fdo verification machinery.
//
// The file is injected into the repository as internal/verif (overlay; it is not
// part of the repository). Under the symbolic engine every function below is
// replaced by an engine intrinsic. The bodies here are the NATIVE semantics
// used when a harness is compiled with the ordinary Go toolchain to replay a
// solver assignment: inputs are read from the JSON file named by VERIF_VALUES
// (name -> hex), a failed assertion prints a marker line and exits with status 3.
package verif

import (
	"encoding/json"
	"fmt"
	"math/big"
	"os"
	"reflect"
	"runtime"
	"bytes"
)

var (
	values map[string]string
	names  = map[string]int{}
	tier   = 0
)

func load() {
	if values != nil {
		return
	}
	values = map[string]string{}
	if f := os.Getenv("VERIF_VALUES"); f != "" {
		b, err := os.ReadFile(f)
		if err == nil {
			var doc struct {
				Model map[string]string `json:"model"`
			}
			if json.Unmarshal(b, &doc) == nil && doc.Model != nil {
				values = doc.Model
			} else {
				_ = json.Unmarshal(b, &values)
			}
		}
	}
	if os.Getenv("VERIF_TIER") == "thorough" {
		tier = 1
	}
}

func fresh(base string) string {
	names[base]++
	if n := names[base]; n > 1 {
		return fmt.Sprintf("%s#%d", base, n)
	}
	return base
}

func val(base string) uint64 {
	load()
	name := fresh(base)
	if s, ok := values[name]; ok {
		v, _ := new(big.Int).SetString(s, 16)
		if v != nil {
			return v.Uint64()
		}
	}
	return 0
}

// Tier is 0 for quick and 1 for thorough runs.
func Tier() int { load(); return tier }

func U8(name string) uint8   { return uint8(val(name)) }
func U16(name string) uint16 { return uint16(val(name)) }
func U32(name string) uint32 { return uint32(val(name)) }
func U64(name string) uint64 { return val(name) }
func I8(name string) int8    { return int8(val(name)) }
func I16(name string) int16  { return int16(val(name)) }
func I32(name string) int32  { return int32(val(name)) }
func I64(name string) int64  { return int64(val(name)) }
func Int(name string) int    { return int(val(name)) }
func Uint(name string) uint  { return uint(val(name)) }
func Bool(name string) bool  { return val(name) != 0 }

// Bytes returns n arbitrary bytes.
func Bytes(name string, n int) []byte {
	load()
	nm := fresh(name)
	b := make([]byte, n)
	for i := range b {
		b[i] = byte(val(fmt.Sprintf("%s[%d]", nm, i)))
	}
	return b
}

// String returns an arbitrary string of n bytes.
func String(name string, n int) string { return string(Bytes(name, n)) }

// Choose returns an arbitrary value in [0,n); the engine enumerates all of them.
func Choose(name string, n int) int {
	v := int(val(name))
	if n <= 0 {
		return 0
	}
	return v % n
}

// Fresh returns n arbitrary bytes that model randomness.
func Fresh(name string, n int) []byte { return Bytes(name, n) }

func Assume(c bool) {
	if !c {
		fmt.Println("VERIF-ASSUME-VIOLATED")
		os.Exit(4)
	}
}
func AssumeMsg(c bool, text string) { Assume(c) }

func Assert(c bool, label string) {
	if !c {
		fmt.Printf("VERIF-ASSERT-FAILED %s\n", label)
		os.Exit(3)
	}
}
func Fail(label string)    { Assert(false, label) }
func Reached(label string) { fmt.Printf("VERIF-REACHED %s\n", label) }
func NoPanic()             {}
func AllowPanic()          {}
func Bound(name, value string) {}
func Note(s string)        {}
func And(a, b bool) bool   { return a && b }
func Or(a, b bool) bool    { return a || b }
func Not(a bool) bool      { return !a }
func Implies(a, b bool) bool { return !a || b }
func BytesEq(a, b []byte) bool { return bytes.Equal(a, b) }
func StrEq(a, b string) bool   { return a == b }
func IsNilErr(err error) bool  { return err == nil }
func DeepEq(a, b any) bool     { return reflect.DeepEqual(a, b) }
func Symbolic() bool           { return false }

// Observe records a value in the trace compared between engine and native runs.
func Observe(label string, v any) {
	switch x := v.(type) {
	case []byte:
		if x == nil {
			fmt.Printf("VERIF-OBSERVE %s=nil\n", label)
		} else {
			fmt.Printf("VERIF-OBSERVE %s=%x\n", label, x)
		}
	case string:
		fmt.Printf("VERIF-OBSERVE %s=%q\n", label, x)
	case error:
		fmt.Printf("VERIF-OBSERVE %s=%s\n", label, x.Error())
	case nil:
		fmt.Printf("VERIF-OBSERVE %s=<nil>\n", label)
	default:
		fmt.Printf("VERIF-OBSERVE %s=%v\n", label, x)
	}
}

// Oracle applies an uninterpreted function (engine only; natively: arbitrary bytes from the value file).
func Oracle(name string, outLen int, args ...[]byte) []byte    { return Bytes("orc!"+name, outLen) }
func OracleInj(name string, outLen int, args ...[]byte) []byte { return Bytes("orc!"+name, outLen) }
func OracleBool(name string, args ...[]byte) bool              { return Bool("orc!" + name) }

// Natively the allocation ghost counter is the runtime's cumulative allocation
// counter (an over-approximation: it also counts small bookkeeping objects).
var allocBase uint64

func totalAlloc() uint64 {
	var ms runtime.MemStats
	runtime.ReadMemStats(&ms)
	return ms.TotalAlloc
}
func AllocBytes() int64 { return int64(totalAlloc() - allocBase) }
func ResetAlloc()       { allocBase = totalAlloc() }

// Caught runs f and reports whether it panicked.
func Caught(f func()) (panicked bool, kind string) {
	defer func() {
		if r := recover(); r != nil {
			panicked = true
			kind = fmt.Sprint(r)
		}
	}()
	f()
	return
}

func SetGhost(name string, v any) {}
func Ghost(name string) any       { return nil }

// BigFixed returns the low n bytes of |x| and whether x fits into n bytes.
func BigFixed(x *big.Int, n int) ([]byte, bool) {
	b := x.Bytes()
	if len(b) > n {
		return b[len(b)-n:], false
	}
	out := make([]byte, n)
	copy(out[n-len(b):], b)
	return out, true
}

// MustBeFeasible: it must be possible (for some value of the symbolic inputs on
// this path) that cond holds; natively a no-op unless cond is false.
func MustBeFeasible(cond bool, label string) {}

// IsFreshRandom / FreeOf are structural checks on symbolic terms (engine only).
func IsFreshRandom(b []byte) bool       { return true }
func FreeOf(wire, secret []byte) bool  { return true }

// Expect declares a label that some path must reach (vacuity guard).
func Expect(label string) {}
