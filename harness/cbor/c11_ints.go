//go:build verif

package cbor

import "github.com/fido-device-onboard/go-fdo/internal/verif"

// C11 (a): decode(encode(v)) == v for every int64.
func VerifC11_Int64RoundTrip() {
	verif.NoPanic()
	v := verif.I64("v")
	b, err := Marshal(v)
	verif.Assert(err == nil, "encode int64 succeeds")
	var w int64
	err = Unmarshal(b, &w)
	verif.Assert(err == nil, "decode(encode(int64)) succeeds")
	verif.Assert(w == v, "decode(encode(int64)) == v")
	verif.Reached("end")
}

func VerifC11_Uint64RoundTrip() {
	verif.NoPanic()
	v := verif.U64("v")
	b, err := Marshal(v)
	verif.Assert(err == nil, "encode uint64 succeeds")
	var w uint64
	err = Unmarshal(b, &w)
	verif.Assert(err == nil, "decode(encode(uint64)) succeeds")
	verif.Assert(w == v, "decode(encode(uint64)) == v")
	verif.Reached("end")
}
