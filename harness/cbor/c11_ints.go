//go:build verif

package cbor

import "github.com/fido-device-onboard/go-fdo/internal/verif"

type vInteger interface {
	~int8 | ~int16 | ~int32 | ~int64 | ~int | ~uint8 | ~uint16 | ~uint32 | ~uint64 | ~uint
}

func vRoundTripInt[T vInteger](v T, kind string) {
	verif.NoPanic()
	verif.Bound("C11a "+kind, "all values of the kind")
	b, err := Marshal(v)
	verif.Assert(err == nil, kind+": encode succeeds")
	var w T
	err = Unmarshal(b, &w)
	verif.Assert(err == nil, kind+": decode(encode(v)) succeeds")
	verif.Assert(w == v, kind+": decode(encode(v)) == v")
	// re-encoding is stable
	b2, err := Marshal(w)
	verif.Assert(verif.And(err == nil, verif.BytesEq(b, b2)), kind+": encode(decode(encode(v))) == encode(v)")
	verif.Reached("end")
}

func VerifC11_RT_int8()   { vRoundTripInt(verif.I8("v"), "int8") }
func VerifC11_RT_int16()  { vRoundTripInt(verif.I16("v"), "int16") }
func VerifC11_RT_int32()  { vRoundTripInt(verif.I32("v"), "int32") }
func VerifC11_RT_int64()  { vRoundTripInt(verif.I64("v"), "int64") }
func VerifC11_RT_int()    { vRoundTripInt(verif.Int("v"), "int") }
func VerifC11_RT_uint8()  { vRoundTripInt(verif.U8("v"), "uint8") }
func VerifC11_RT_uint16() { vRoundTripInt(verif.U16("v"), "uint16") }
func VerifC11_RT_uint32() { vRoundTripInt(verif.U32("v"), "uint32") }
func VerifC11_RT_uint64() { vRoundTripInt(verif.U64("v"), "uint64") }
func VerifC11_RT_uint()   { vRoundTripInt(verif.Uint("v"), "uint") }

// reference: shortest-form head for major type maj and argument n.
func vRefHead(maj byte, n uint64) []byte {
	switch {
	case n < 24:
		return []byte{maj<<5 | byte(n)}
	case n <= 0xff:
		return []byte{maj<<5 | 24, byte(n)}
	case n <= 0xffff:
		return []byte{maj<<5 | 25, byte(n >> 8), byte(n)}
	case n <= 0xffffffff:
		return []byte{maj<<5 | 26, byte(n >> 24), byte(n >> 16), byte(n >> 8), byte(n)}
	}
	return []byte{maj<<5 | 27, byte(n >> 56), byte(n >> 48), byte(n >> 40), byte(n >> 32), byte(n >> 24), byte(n >> 16), byte(n >> 8), byte(n)}
}

// C11 (b): integer heads are the shortest form, major type by sign.
func VerifC11_ShortestHeadUint() {
	verif.NoPanic()
	v := verif.U64("v")
	b, err := Marshal(v)
	verif.Assert(err == nil, "encode uint64")
	verif.Assert(verif.BytesEq(b, vRefHead(0, v)), "uint64 encodes as the shortest major-0 head")
	verif.Reached("end")
}

func VerifC11_ShortestHeadInt() {
	verif.NoPanic()
	v := verif.I64("v")
	b, err := Marshal(v)
	verif.Assert(err == nil, "encode int64")
	if v >= 0 {
		verif.Assert(verif.BytesEq(b, vRefHead(0, uint64(v))), "non-negative int64 encodes as the shortest major-0 head")
	} else {
		verif.Assert(verif.BytesEq(b, vRefHead(1, uint64(-1-v))), "negative int64 encodes as the shortest major-1 head of -1-v")
	}
	verif.Reached("end")
}

// C11 (c): byte/text string heads are shortest for boundary lengths; content preserved.
func VerifC11_StringHeads() {
	verif.NoPanic()
	lens := []int{0, 1, 23, 24, 255, 256, 300}
	if verif.Tier() > 0 {
		lens = append(lens, 65535, 65536, 70000)
	}
	verif.Bound("C11c lengths", "0,1,23,24,255,256,300 (+65535,65536,70000 thorough); content symbolic for lengths <= 24, else zero-filled with symbolic first/last byte")
	n := lens[verif.Choose("len", len(lens))]
	var content []byte
	if n <= 24 {
		content = verif.Bytes("content", n)
	} else {
		content = make([]byte, n)
		content[0] = verif.U8("first")
		content[n-1] = verif.U8("last")
	}
	b, err := Marshal(content)
	verif.Assert(err == nil, "encode []byte")
	want := append(vRefHead(2, uint64(n)), content...)
	verif.Assert(verif.BytesEq(b, want), "[]byte encodes as shortest major-2 head + content")
	var back []byte
	err = Unmarshal(b, &back)
	verif.Assert(verif.And(err == nil, verif.BytesEq(back, content)), "decode(encode([]byte)) == content")
	s := string(content)
	b, err = Marshal(s)
	verif.Assert(err == nil, "encode string")
	verif.Assert(verif.BytesEq(b, append(vRefHead(3, uint64(n)), content...)), "string encodes as shortest major-3 head + content")
	var sback string
	err = Unmarshal(b, &sback)
	verif.Assert(verif.And(err == nil, verif.StrEq(sback, s)), "decode(encode(string)) == s")
	verif.Reached("end")
}

func vLess(a, b []byte) bool { // bytewise lexical, a != b assumed when used
	n := min(len(a), len(b))
	for i := 0; i < n; i++ {
		if a[i] != b[i] {
			return a[i] < b[i]
		}
	}
	return len(a) < len(b)
}

// C11 (d): map keys come out sorted bytewise, for every insertion order; the map round-trips.
func VerifC11_MapOrderInt() {
	verif.NoPanic()
	nk := 2
	wide := false
	if verif.Tier() > 0 {
		// thorough: 3 keys over the int8 range, or 2 keys over the int16 range
		if verif.Choose("shape", 2) == 0 {
			nk = 3
		} else {
			wide = true
		}
	}
	verif.Bound("C11d keys", "2 symbolic keys over the int8 range (quick); thorough adds 3 keys over the int8 range and 2 keys over the int16 range; held in an int64 map; all rotations and reversals of insertion order")
	keys := make([]int64, nk)
	vals := make([]int64, nk)
	for i := range keys {
		if wide {
			keys[i] = int64(verif.I16("k"))
		} else {
			keys[i] = int64(verif.I8("k"))
		}
		vals[i] = int64(verif.U8("val"))
	}
	for i := range keys {
		for j := 0; j < i; j++ {
			verif.Assume(keys[i] != keys[j])
		}
	}
	// insertion order: rotate by a chosen offset, optionally reversed
	off := verif.Choose("rot", nk)
	rev := verif.Choose("rev", 2)
	m := make(map[int64]int64)
	for i := 0; i < nk; i++ {
		idx := (i + off) % nk
		if rev == 1 {
			idx = nk - 1 - idx
		}
		m[keys[idx]] = vals[idx]
	}
	b, err := Marshal(m)
	verif.Assert(err == nil, "encode map")
	verif.Assert(len(b) > 0 && b[0] == 0xa0|byte(nk), "map head is major 5 with the pair count")
	// walk the pairs with the real stream decoder
	dec := NewDecoder(bytesReader(b[1:]))
	var prev []byte
	for i := 0; i < nk; i++ {
		var k, v RawBytes
		verif.Assert(dec.Decode(&k) == nil, "map key decodes")
		verif.Assert(dec.Decode(&v) == nil, "map value decodes")
		if i > 0 {
			verif.Assert(vLess(prev, k), "encoded map keys strictly ascending bytewise")
		}
		prev = k
	}
	var back map[int64]int64
	err = Unmarshal(b, &back)
	verif.Assert(err == nil, "decode(encode(map)) succeeds")
	verif.Assert(len(back) == nk, "decoded map has all pairs")
	for i := range keys {
		got, ok := back[keys[i]]
		verif.Assert(verif.And(ok, got == vals[i]), "decoded map maps every key to its value")
	}
	b2, err := Marshal(back)
	verif.Assert(verif.And(err == nil, verif.BytesEq(b, b2)), "encode(decode(encode(map))) == encode(map)")
	verif.Reached("end")
}
