//go:build verif

package cbor

import (
	"time"

	"github.com/fido-device-onboard/go-fdo/internal/verif"
)

// tags decoded into `any`: the tag number and the tagged item survive, and
// re-encoding reproduces the bytes.
func VerifC11_TagThroughAny() {
	verif.NoPanic()
	verif.Bound("C11 tag/any", "tag number any uint64; tagged content: unsigned integer (any uint64), or byte string of 0..2 symbolic bytes, or array [uint16, uint8]; also nested in a 1-element array")
	num := verif.U64("tagnum")
	var enc []byte
	var err error
	switch verif.Choose("content", 3) {
	case 0:
		enc, err = Marshal(Tag[uint64]{Num: num, Val: verif.U64("val")})
	case 1:
		enc, err = Marshal(Tag[[]byte]{Num: num, Val: verif.Bytes("bs", verif.Choose("nbs", 3))})
	default:
		enc, err = Marshal(Tag[[]any]{Num: num, Val: []any{int64(verif.U16("a")), int64(verif.U8("b"))}})
	}
	verif.Assert(err == nil, "tag encodes")
	verif.Assert(verif.BytesEq(enc[:len(vRefHead(6, num))], vRefHead(6, num)), "the tag head is the shortest form")
	if verif.Choose("nested", 2) == 1 {
		enc = append([]byte{0x81}, enc...)
		var arr []any
		verif.Assert(Unmarshal(enc, &arr) == nil && len(arr) == 1, "array with a tagged item decodes into []any")
		tg, ok := arr[0].(Tag[RawBytes])
		verif.Assert(ok, "a tag decodes into any as Tag[RawBytes]")
		verif.Assert(tg.Num == num, "the tag number survives decoding into any (nested)")
		back, err := Marshal(arr)
		verif.Assert(err == nil && verif.BytesEq(back, enc), "encode(decode(b)) == b for a tagged item inside []any")
		verif.Reached("end")
		return
	}
	var x any
	verif.Assert(Unmarshal(enc, &x) == nil, "tag decodes into any")
	tg, ok := x.(Tag[RawBytes])
	verif.Assert(ok, "a tag decodes into any as Tag[RawBytes]")
	verif.Assert(tg.Num == num, "the tag number survives decoding into any")
	verif.Assert(verif.BytesEq([]byte(tg.Val), enc[len(vRefHead(6, num)):]), "the tagged item is kept byte for byte")
	back, err := Marshal(x)
	verif.Assert(err == nil && verif.BytesEq(back, enc), "encode(decode(b)) == b for tags through any")
	// typed decoding agrees
	var typed Tag[RawBytes]
	verif.Assert(Unmarshal(enc, &typed) == nil && typed.Num == num, "typed Tag decoding yields the same tag number")
	verif.Reached("end")
}

type vInner struct {
	A uint16
	B []byte
}

// convention types: decode(encode(v)) == v and encode(decode(encode(v))) == encode(v)
func VerifC11_Conventions() {
	verif.NoPanic()
	verif.Bound("C11 conventions", "Bstr[struct{uint16, []byte(0..2)}], ByteWrap[[]byte(0..2)], ByteWrap[struct], RawBytes of an encoded uint64, Tag[Bstr[uint32]], *uint8 nil/non-nil; all leaves symbolic")
	inner := vInner{A: verif.U16("a"), B: verif.Bytes("b", verif.Choose("nb", 3))}
	switch verif.Choose("conv", 6) {
	case 0:
		v := Bstr[vInner]{Val: inner}
		enc, err := Marshal(v)
		verif.Assert(err == nil, "Bstr encodes")
		ie, _ := Marshal(inner)
		verif.Assert(verif.BytesEq(enc, append(vRefHead(2, uint64(len(ie))), ie...)), "Bstr = byte string head (shortest) + encoded item")
		var w Bstr[vInner]
		verif.Assert(Unmarshal(enc, &w) == nil && w.Val.A == inner.A && verif.BytesEq(w.Val.B, inner.B), "decode(encode(Bstr)) == v")
		back, err := Marshal(w)
		verif.Assert(err == nil && verif.BytesEq(back, enc), "re-encoding a decoded Bstr reproduces the bytes")
	case 1:
		v := ByteWrap[[]byte]{Val: inner.B}
		enc, err := Marshal(v)
		verif.Assert(err == nil, "ByteWrap encodes")
		var w ByteWrap[[]byte]
		verif.Assert(Unmarshal(enc, &w) == nil && verif.BytesEq(w.Val, inner.B), "decode(encode(ByteWrap[[]byte])) == v")
		back, err := Marshal(w)
		verif.Assert(err == nil && verif.BytesEq(back, enc), "re-encoding reproduces the bytes")
	case 2:
		v := ByteWrap[vInner]{Val: inner}
		enc, err := Marshal(v)
		verif.Assert(err == nil, "ByteWrap encodes")
		var w ByteWrap[vInner]
		verif.Assert(Unmarshal(enc, &w) == nil && w.Val.A == inner.A && verif.BytesEq(w.Val.B, inner.B), "decode(encode(ByteWrap[struct])) == v")
		back, err := Marshal(w)
		verif.Assert(err == nil && verif.BytesEq(back, enc), "re-encoding reproduces the bytes")
	case 3:
		ie, _ := Marshal(verif.U64("raw"))
		enc, err := Marshal([]any{RawBytes(ie), int64(1)})
		verif.Assert(err == nil && verif.BytesEq(enc, append(append([]byte{0x82}, ie...), 0x01)), "RawBytes are emitted untransformed")
		var w struct {
			R RawBytes
			N int
		}
		verif.Assert(Unmarshal(enc, &w) == nil && verif.BytesEq(w.R, ie) && w.N == 1, "RawBytes capture exactly one item")
	case 4:
		v := Tag[Bstr[uint32]]{Num: verif.U64("tagnum"), Val: Bstr[uint32]{Val: verif.U32("x")}}
		enc, err := Marshal(v)
		verif.Assert(err == nil, "Tag[Bstr] encodes")
		var w Tag[Bstr[uint32]]
		verif.Assert(Unmarshal(enc, &w) == nil && w.Num == v.Num && w.Val.Val == v.Val.Val, "decode(encode(Tag[Bstr[uint32]])) == v")
		back, err := Marshal(w)
		verif.Assert(err == nil && verif.BytesEq(back, enc), "re-encoding reproduces the bytes")
	default:
		type S struct {
			P *uint8
			Q uint8
		}
		var s S
		s.Q = verif.U8("q")
		if verif.Choose("nilp", 2) == 1 {
			p := verif.U8("p")
			s.P = &p
		}
		enc, err := Marshal(s)
		verif.Assert(err == nil, "struct with pointer encodes")
		var w S
		verif.Assert(Unmarshal(enc, &w) == nil && w.Q == s.Q && (w.P == nil) == (s.P == nil) && (s.P == nil || *w.P == *s.P), "null / pointer round trip")
		back, err := Marshal(w)
		verif.Assert(err == nil && verif.BytesEq(back, enc), "re-encoding reproduces the bytes")
	}
	verif.Reached("end")
}

// timestamps: decode(encode(t)) == t for whole-second instants
func VerifC11_Timestamp() {
	verif.NoPanic()
	verif.Bound("C11 timestamp", "any whole-second instant 0 <= Unix seconds < 2^40, and the zero time")
	if verif.Choose("zero", 2) == 1 {
		enc, err := Marshal(Timestamp(time.Time{}))
		verif.Assert(err == nil && verif.BytesEq(enc, []byte{0xf6}), "the zero time encodes as null")
		var back Timestamp
		verif.Assert(Unmarshal(enc, &back) == nil && time.Time(back).IsZero(), "null decodes to the zero time")
		verif.Reached("zero")
		return
	}
	sec := verif.I64("sec")
	verif.Assume(sec >= 0 && sec < 1<<40)
	ts := Timestamp(time.Unix(sec, 0))
	enc, err := Marshal(ts)
	verif.Assert(err == nil, "timestamp encodes")
	var back Timestamp
	verif.Assert(Unmarshal(enc, &back) == nil, "timestamp decodes")
	verif.Assert(time.Time(back).Unix() == sec, "decode(encode(timestamp)) is the same instant")
	verif.Reached("end")
}

type VEmbC11 struct {
	E1 uint8
	E2 uint8
}
type vFeat struct {
	F0   uint8
	Fix  [2]byte
	Opt  *VEmbC11
	VEmbC11
	Tail []uint8 `cbor:",omitempty"`
}

// struct-tag machinery used by the FDO messages: fixed arrays, nullable pointers,
// flattened embedded fields, a trailing omitempty field
func VerifC11_StructFeatures() {
	verif.NoPanic()
	verif.Bound("C11g", "struct{uint8, [2]byte, *struct nil/non-nil, embedded struct flattened into 2 fields, trailing omitempty slice of 0..2}; all leaves symbolic")
	v := vFeat{F0: verif.U8("f0")}
	copy(v.Fix[:], verif.Bytes("fix", 2))
	if verif.Choose("opt", 2) == 1 {
		v.Opt = &VEmbC11{verif.U8("o1"), verif.U8("o2")}
	}
	v.E1, v.E2 = verif.U8("e1"), verif.U8("e2")
	nt := verif.Choose("ntail", 3)
	for i := 0; i < nt; i++ {
		v.Tail = append(v.Tail, verif.U8("t"))
	}
	enc, err := Marshal(v)
	verif.Assert(err == nil, "struct encodes")
	want := 6
	if nt == 0 {
		want = 5
	}
	verif.Assert(enc[0] == 0x80|byte(want), "array head counts the flattened fields and omits the empty trailing field")
	var w vFeat
	verif.Assert(Unmarshal(enc, &w) == nil, "struct decodes")
	verif.Assert(w.F0 == v.F0 && w.Fix == v.Fix && w.E1 == v.E1 && w.E2 == v.E2, "scalar, fixed-array and flattened fields round trip")
	verif.Assert((w.Opt == nil) == (v.Opt == nil) && (v.Opt == nil || *w.Opt == *v.Opt), "nullable pointer field round trips")
	verif.Assert(len(w.Tail) == len(v.Tail), "omitempty field round trips (length)")
	for i := range v.Tail {
		verif.Assert(w.Tail[i] == v.Tail[i], "omitempty field round trips (content)")
	}
	back, err := Marshal(w)
	verif.Assert(err == nil && verif.BytesEq(back, enc), "encode(decode(encode(v))) == encode(v)")
	verif.Reached("end")
}

// independent reference: is b one canonical item of the supported data model,
// and how long is it? (shortest heads, sorted unique map keys, no reserved info)
func vCanonItem(b []byte, depth int) (n int, ok bool) {
	if len(b) == 0 || depth > 4 {
		return 0, false
	}
	maj, info := b[0]>>5, b[0]&0x1f
	var arg uint64
	hl := 1
	switch {
	case info < 24:
		arg = uint64(info)
	case info == 24:
		if len(b) < 2 || b[1] < 24 {
			return 0, false
		}
		arg, hl = uint64(b[1]), 2
	case info == 25:
		if len(b) < 3 || b[1] == 0 {
			return 0, false
		}
		arg, hl = uint64(b[1])<<8|uint64(b[2]), 3
	default:
		return 0, false // 4/8-byte heads cannot be canonical within the byte bound; 28..31 reserved/indefinite
	}
	switch maj {
	case 0, 1:
		return hl, true
	case 2, 3:
		if uint64(len(b)-hl) < arg {
			return 0, false
		}
		return hl + int(arg), true
	case 4:
		n = hl
		for i := uint64(0); i < arg; i++ {
			k, ok := vCanonItem(b[n:], depth+1)
			if !ok {
				return 0, false
			}
			n += k
		}
		return n, true
	case 7:
		if info == 20 || info == 21 || info == 22 {
			return 1, true
		}
		return 0, false
	}
	return 0, false // maps and tags: left to the dedicated harnesses
}

// arbitrary bytes into any: whenever the input is one canonical item (per the
// independent reference), decoding succeeds and re-encoding reproduces it.
func VerifC11_RefCodecAny() {
	verif.NoPanic()
	verif.Bound("C11f", "all byte strings of length 1..3 (quick) / 1..4 (thorough) that the reference recognises as one canonical item made of integers, byte/text strings, arrays, booleans, null; maps and tags have their own harnesses; unsigned values above MaxInt64 cannot occur within the bound")
	n := 1 + verif.Choose("n", 3+verif.Tier())
	b := verif.Bytes("b", n)
	k, ok := vCanonItem(b, 0)
	if !ok || k != n {
		verif.Reached("not canonical")
		return
	}
	var x any
	err := Unmarshal(b, &x)
	verif.Assert(err == nil, "a canonical item of the supported model decodes into any")
	back, err := Marshal(x)
	verif.Assert(err == nil, "the decoded value encodes")
	verif.Assert(verif.BytesEq(back, b), "encode(decode(b)) == b for canonical b")
	verif.Reached("end")
}

// every integer encoding (any head width, shortest or not) decodes to its
// mathematical value or is rejected - never to another value
func vDecodeIntHead[T vInteger](kind string, lo, hi int64, unsignedMax uint64) {
	verif.NoPanic()
	verif.Bound("C11 decode "+kind, "major type 0 or 1 with a 0/1/2/4/8-byte argument of any value (shortest form or not) decoded into "+kind)
	neg := verif.Bool("negative")
	var arg uint64
	var enc []byte
	maj := byte(0)
	if neg {
		maj = 0x20
	}
	switch verif.Choose("width", 5) {
	case 0:
		a := verif.U8("a0")
		verif.Assume(a < 24)
		arg, enc = uint64(a), []byte{maj | a}
	case 1:
		a := verif.U8("a1")
		arg, enc = uint64(a), []byte{maj | 24, a}
	case 2:
		a := verif.U16("a2")
		arg, enc = uint64(a), []byte{maj | 25, byte(a >> 8), byte(a)}
	case 3:
		a := verif.U32("a4")
		arg, enc = uint64(a), []byte{maj | 26, byte(a >> 24), byte(a >> 16), byte(a >> 8), byte(a)}
	default:
		a := verif.U64("a8")
		arg, enc = a, []byte{maj | 27, byte(a >> 56), byte(a >> 48), byte(a >> 40), byte(a >> 32), byte(a >> 24), byte(a >> 16), byte(a >> 8), byte(a)}
	}
	var v T
	err := Unmarshal(enc, &v)
	if err != nil {
		verif.Reached("rejected")
		return
	}
	if neg {
		// value = -1 - arg must be representable
		verif.Assert(arg <= uint64(-(lo + 1)), "an accepted negative integer is within the target's range (not wrapped)")
		verif.Assert(lo < 0, "unsigned targets reject negative integers")
		verif.Assert(int64(v) == -1-int64(arg), "a negative integer decodes to -1 - argument")
	} else {
		if unsignedMax != 0 {
			verif.Assert(arg <= unsignedMax, "an accepted unsigned integer is within the target's range")
			verif.Assert(uint64(v) == arg, "an unsigned integer decodes to its argument")
		} else {
			verif.Assert(arg <= uint64(hi), "an accepted non-negative integer is within the target's range")
			verif.Assert(int64(v) == int64(arg), "a non-negative integer decodes to its argument")
		}
	}
	verif.Reached("accepted")
}

func VerifC11_DecodeHead_int8()   { vDecodeIntHead[int8]("int8", -128, 127, 0) }
func VerifC11_DecodeHead_int16()  { vDecodeIntHead[int16]("int16", -32768, 32767, 0) }
func VerifC11_DecodeHead_int32()  { vDecodeIntHead[int32]("int32", -2147483648, 2147483647, 0) }
func VerifC11_DecodeHead_int64()  { vDecodeIntHead[int64]("int64", -9223372036854775808, 9223372036854775807, 0) }
func VerifC11_DecodeHead_uint8()  { vDecodeIntHead[uint8]("uint8", 0, 0, 255) }
func VerifC11_DecodeHead_uint16() { vDecodeIntHead[uint16]("uint16", 0, 0, 65535) }
func VerifC11_DecodeHead_uint32() { vDecodeIntHead[uint32]("uint32", 0, 0, 4294967295) }
func VerifC11_DecodeHead_uint64() { vDecodeIntHead[uint64]("uint64", 0, 0, 18446744073709551615) }

// into any: integers decode to int64 (documented), never to a wrapped value
func VerifC11_DecodeHead_any() {
	verif.NoPanic()
	verif.Bound("C11 decode any", "major type 0 or 1 with an 8-byte argument of any value decoded into any")
	neg := verif.Bool("negative")
	a := verif.U64("a8")
	maj := byte(0x1b)
	if neg {
		maj = 0x3b
	}
	enc := []byte{maj, byte(a >> 56), byte(a >> 48), byte(a >> 40), byte(a >> 32), byte(a >> 24), byte(a >> 16), byte(a >> 8), byte(a)}
	var x any
	if Unmarshal(enc, &x) != nil {
		verif.Reached("rejected")
		return
	}
	i, ok := x.(int64)
	verif.Assert(ok, "an integer decodes into any as int64")
	verif.Assert(a <= 1<<63-1, "an integer outside the int64 range is rejected, not wrapped")
	if neg {
		verif.Assert(i == -1-int64(a), "negative value")
	} else {
		verif.Assert(i == int64(a), "non-negative value")
	}
	verif.Reached("accepted")
}

type VL3C11 struct {
	P uint8
	Q uint8
}
type VL2C11 struct {
	VL3C11
	R uint8
}
type VL1C11 struct {
	VL2C11
	S uint8
}
type vDeep struct {
	A uint8
	VL1C11
	Z uint8
}
type vDeepPtr struct {
	A uint8
	*VL1C11
	Z uint8
}

// embedded structs nested three levels deep (by value and through a pointer)
func VerifC11_DeepEmbedding() {
	verif.NoPanic()
	verif.Bound("C11g deep", "struct with an embedded struct nested 3 levels (innermost with 2 fields), by value or through a pointer; all leaves symbolic")
	in := VL1C11{VL2C11{VL3C11{verif.U8("p"), verif.U8("q")}, verif.U8("r")}, verif.U8("s")}
	a, z := verif.U8("a"), verif.U8("z")
	want := []byte{0x86}
	for _, b := range []uint8{a, in.P, in.Q, in.R, in.S, z} {
		e, _ := Marshal(b)
		want = append(want, e...)
	}
	if verif.Choose("ptr", 2) == 0 {
		v := vDeep{A: a, VL1C11: in, Z: z}
		enc, err := Marshal(v)
		verif.Assert(err == nil && verif.BytesEq(enc, want), "fields of nested embedded structs are encoded once each, in declaration order")
		var w vDeep
		verif.Assert(Unmarshal(enc, &w) == nil && w == v, "decode(encode(v)) == v for nested embedding")
	} else {
		v := vDeepPtr{A: a, VL1C11: &in, Z: z}
		enc, err := Marshal(v)
		verif.Assert(err == nil && verif.BytesEq(enc, want), "fields reached through an embedded pointer are encoded once each, in declaration order")
		var w vDeepPtr
		verif.Assert(Unmarshal(enc, &w) == nil && w.VL1C11 != nil && *w.VL1C11 == in && w.A == a && w.Z == z, "decode(encode(v)) == v for nested embedding through a pointer")
	}
	verif.Reached("end")
}
