//go:build verif

package cbor

import (
	"bytes"
	"io"

	"github.com/fido-device-onboard/go-fdo/internal/verif"
)

// vRefItem is an independent reference: length of the first well-formed,
// definite-length data item of b within the supported data model (no floats,
// no indefinite lengths, no reserved additional information). ok=false when b
// does not start with such an item (truncated, malformed or outside the model).
func vRefItem(b []byte, depth int) (n int, ok bool) {
	if len(b) == 0 || depth > 6 {
		return 0, false
	}
	maj, low := b[0]>>5, b[0]&0x1f
	var arg uint64
	hl := 1
	switch {
	case low < 24:
		arg = uint64(low)
	case low == 24:
		if len(b) < 2 {
			return 0, false
		}
		arg, hl = uint64(b[1]), 2
	case low == 25:
		if len(b) < 3 {
			return 0, false
		}
		arg, hl = uint64(b[1])<<8|uint64(b[2]), 3
	case low == 26:
		if len(b) < 5 {
			return 0, false
		}
		arg, hl = uint64(b[1])<<24|uint64(b[2])<<16|uint64(b[3])<<8|uint64(b[4]), 5
	case low == 27:
		if len(b) < 9 {
			return 0, false
		}
		for i := 1; i <= 8; i++ {
			arg = arg<<8 | uint64(b[i])
		}
		hl = 9
	default:
		return 0, false
	}
	switch maj {
	case 0, 1:
		return hl, true
	case 2, 3:
		if arg > uint64(len(b)-hl) {
			return 0, false
		}
		return hl + int(arg), true
	case 4, 5:
		items := arg
		if maj == 5 {
			if arg > uint64(len(b)) {
				return 0, false
			}
			items = 2 * arg
		}
		if items > uint64(len(b)-hl) {
			return 0, false
		}
		pos := hl
		for i := uint64(0); i < items; i++ {
			l, ok := vRefItem(b[pos:], depth+1)
			if !ok {
				return 0, false
			}
			pos += l
		}
		return pos, true
	case 6:
		l, ok := vRefItem(b[hl:], depth+1)
		if !ok {
			return 0, false
		}
		return hl + l, true
	default: // 7: simple values of the model only
		if low == 20 || low == 21 || low == 22 || low == 23 {
			return 1, true
		}
		return 0, false
	}
}

type vSmall struct {
	A int
	B []byte
}
type vOmit struct {
	A int
	B []byte `cbor:",omitempty"`
}

// vTotal: arbitrary n bytes into target T. No panic; whole-buffer decoding
// succeeds only if the buffer is exactly one item; stream decoding of a
// well-formed item consumes exactly that item; allocation stays proportional.
func vTotal[T any](n int, what string) {
	verif.NoPanic()
	verif.Bound("C12 raw bytes into "+what, "every byte string of the stated length (quick <= 3, thorough <= 4), fully symbolic")
	b := verif.Bytes("b", n)
	refLen, refOK := vRefItem(b, 0)
	verif.ResetAlloc()
	var v T
	err := Unmarshal(b, &v)
	verif.Assert(verif.AllocBytes() <= int64(64*n+1024), what+": allocation while decoding is bounded by 64*len+1024")
	if err == nil && refOK {
		verif.Assert(refLen == n, what+": Unmarshal succeeds on a well-formed item only when it spans the whole buffer")
	}
	// stream decoding with a sentinel appended
	buf := bytes.NewBuffer(append(append([]byte{}, b...), 0x01))
	var w T
	err = NewDecoder(buf).Decode(&w)
	if err == nil && refOK {
		verif.Assert(buf.Len() == n+1-refLen, what+": Decode consumes exactly the first well-formed item")
	}
	verif.Reached("end")
}

func vLenTier() int { return 1 + verif.Choose("n", 2+verif.Tier()) } // 1..3 (quick) / 1..4 (thorough)

func VerifC12_Total_any()       { vTotal[any](vLenTier(), "any") }
func VerifC12_Total_int64()     { vTotal[int64](vLenTier(), "int64") }
func VerifC12_Total_uint8()     { vTotal[uint8](vLenTier(), "uint8") }
func VerifC12_Total_bytes()     { vTotal[[]byte](vLenTier(), "[]byte") }
func VerifC12_Total_string()    { vTotal[string](vLenTier(), "string") }
func VerifC12_Total_array2()    { vTotal[[2]byte](vLenTier(), "[2]byte") }
func VerifC12_Total_sliceAny()  { vTotal[[]any](vLenTier(), "[]any") }
func VerifC12_Total_sliceInt()  { vTotal[[]int](vLenTier(), "[]int") }
func VerifC12_Total_mapIntInt() { vTotal[map[int]int](vLenTier(), "map[int]int") }
func VerifC12_Total_mapAnyAny() { vTotal[map[any]any](vLenTier(), "map[any]any") }
func VerifC12_Total_ptrInt()    { vTotal[*int](vLenTier(), "*int") }
func VerifC12_Total_struct()    { vTotal[vSmall](vLenTier(), "struct{int;[]byte}") }
func VerifC12_Total_omit()      { vTotal[vOmit](vLenTier(), "struct with omitempty") }
func VerifC12_Total_tagRaw()    { vTotal[Tag[RawBytes]](vLenTier(), "Tag[RawBytes]") }
func VerifC12_Total_bstrInt()   { vTotal[Bstr[int]](vLenTier(), "Bstr[int]") }
func VerifC12_Total_byteWrap()  { vTotal[ByteWrap[[]byte]](vLenTier(), "ByteWrap[[]byte]") }
func VerifC12_Total_rawBytes()  { vTotal[RawBytes](vLenTier(), "RawBytes") }
func VerifC12_Total_bool()      { vTotal[bool](vLenTier(), "bool") }

// Claimed lengths: a head of major type maj carrying a (boundary) claimed
// length, followed by a few arbitrary bytes. Lengths >= the documented limit
// must be rejected before allocating; below it allocation must stay
// proportional to the input.
var vClaims = []uint64{0, 1, 3, 23, 24, 255, 256, 65535, 65536, 49999, 50000, 99999, 100000, 100001, 1 << 31, 1<<32 - 1, 1 << 32, 1<<63 - 1, 1 << 63, 1<<63 + 1, 1<<64 - 1}

func vClaimed[T any](maj byte, what string) {
	verif.NoPanic()
	verif.Bound("C12 claimed lengths", "21 boundary values from 0 to 2^64-1 in the shortest and in the 8-byte head form, followed by 0..3 symbolic bytes (0..1 for arrays and maps)")
	claim := vClaims[verif.Choose("claim", len(vClaims))]
	var head []byte
	if verif.Choose("wide", 2) == 1 {
		head = []byte{maj<<5 | 27, byte(claim >> 56), byte(claim >> 48), byte(claim >> 40), byte(claim >> 32), byte(claim >> 24), byte(claim >> 16), byte(claim >> 8), byte(claim)}
	} else {
		head = vRefHead(maj, claim)
	}
	maxTail := 3
	if maj == 4 || maj == 5 || what == "bstr into Bstr[int]" {
		maxTail = 1 // each tail byte of an array/map/bstr-wrapped item is itself an arbitrary item
	}
	tail := verif.Bytes("tail", verif.Choose("ntail", maxTail+1))
	b := append(head, tail...)
	verif.ResetAlloc()
	var v T
	err := Unmarshal(b, &v)
	alloc := verif.AllocBytes()
	limit := uint64(MaxArrayDecodeLength)
	if maj == 5 {
		limit /= 2
	}
	if claim >= limit {
		verif.Assert(err != nil, what+": claimed length at or above the documented limit is rejected")
		verif.Assert(alloc <= 1024, what+": nothing is allocated for a rejected claimed length")
	}
	verif.Assert(alloc <= int64(64*len(b)+1024), what+": allocation bounded by 64*len(input)+1024, not by the claimed length")
	verif.Reached("end")
}

func VerifC12_Claimed_bytes_any()     { vClaimed[any](2, "bstr into any") }
func VerifC12_Claimed_bytes_slice()   { vClaimed[[]byte](2, "bstr into []byte") }
func VerifC12_Claimed_text_string()   { vClaimed[string](3, "tstr into string") }
func VerifC12_Claimed_array_any()     { vClaimed[any](4, "array into any") }
func VerifC12_Claimed_array_slice()   { vClaimed[[]int](4, "array into []int") }
func VerifC12_Claimed_array_struct()  { vClaimed[vSmall](4, "array into struct") }
func VerifC12_Claimed_map_any()       { vClaimed[any](5, "map into any") }
func VerifC12_Claimed_map_typed()     { vClaimed[map[int]int](5, "map into map[int]int") }
func VerifC12_Claimed_array_raw()     { vClaimed[RawBytes](4, "array into RawBytes") }
func VerifC12_Claimed_map_raw()       { vClaimed[RawBytes](5, "map into RawBytes") }
func VerifC12_Claimed_bytes_raw()     { vClaimed[RawBytes](2, "bstr into RawBytes") }
func VerifC12_Claimed_bytes_wrap()    { vClaimed[ByteWrap[[]byte]](2, "bstr into ByteWrap[[]byte]") }
func VerifC12_Claimed_bytes_bstr()    { vClaimed[Bstr[int]](2, "bstr into Bstr[int]") }
func VerifC12_Claimed_bytes_cert()    { vClaimed[X509Certificate](2, "bstr into X509Certificate") }

// decodeLen on every 64-bit claimed length: success implies the length is the
// claimed one (doubled for maps) and below the limit.
func VerifC12_DecodeLenArith() {
	verif.NoPanic()
	verif.Bound("C12 decodeLen", "all 2^64 claimed lengths x 8 major types, 8-byte additional info")
	maj := byte(verif.Choose("maj", 8))
	add := verif.Bytes("add", 8)
	var claim uint64
	for _, x := range add {
		claim = claim<<8 | uint64(x)
	}
	n, err := decodeLen(maj, 27, add)
	if err == nil {
		verif.Assert(n >= 0 && n < MaxArrayDecodeLength, "decodeLen success => 0 <= n < limit")
		if maj == 5 {
			verif.Assert(claim < MaxArrayDecodeLength/2 && uint64(n) == 2*claim, "decodeLen(map) success => n == 2*claimed pairs, claimed < limit/2")
		} else {
			verif.Assert(uint64(n) == claim, "decodeLen success => n == claimed")
		}
	}
	verif.Reached("end")
}

// ArrayShift is total on non-empty input and splits exactly.
func VerifC12_ArrayShift() {
	verif.NoPanic()
	n := vLenTier()
	b := verif.Bytes("b", n)
	first, rest := ArrayShift(b)
	if first != nil {
		verif.Assert(len(first) > 0 && len(first) < n+1, "ArrayShift first item is within the input")
		l, ok := vRefItem(b, 0)
		if ok {
			verif.Assert(l <= n, "ArrayShift on a well-formed array stays in bounds")
		}
	} else {
		verif.Assert(verif.BytesEq(rest, b), "ArrayShift returns the input unchanged when it cannot shift")
	}
	verif.Reached("end")
}

// vOneByteReader hands out at most one byte per Read (a fragmenting transport)
type vOneByteReader struct {
	b   []byte
	pos int
}

func (r *vOneByteReader) Read(p []byte) (int, error) {
	if r.pos >= len(r.b) {
		return 0, io.EOF
	}
	if len(p) == 0 {
		return 0, nil
	}
	p[0] = r.b[r.pos]
	r.pos++
	return 1, nil
}

// stream decoding does not depend on how the transport fragments the bytes: from a
// reader that delivers one byte per Read the decoder yields the same value or error,
// and consumes the same number of bytes, as from a contiguous buffer
func VerifC12_FragmentedReader() {
	verif.NoPanic()
	verif.Bound("C12 fragmented", "every byte string of length 1..3 followed by a sentinel item, decoded into any (thorough: also int64 and []byte) from a contiguous buffer and from a reader delivering one byte per Read")
	n := 1 + verif.Choose("n", 3)
	b := append(verif.Bytes("b", n), 0x18, 0x2a)
	target := verif.Choose("target", 1+2*verif.Tier())
	dec := func(r io.Reader) (any, error, any, error) {
		d := NewDecoder(r)
		switch target {
		case 0:
			var x, y any
			e1 := d.Decode(&x)
			var e2 error
			if e1 == nil {
				e2 = d.Decode(&y)
			}
			return x, e1, y, e2
		case 1:
			var x, y int64
			e1 := d.Decode(&x)
			var e2 error
			if e1 == nil {
				e2 = d.Decode(&y)
			}
			return x, e1, y, e2
		}
		var x, y []byte
		e1 := d.Decode(&x)
		var e2 error
		if e1 == nil {
			e2 = d.Decode(&y)
		}
		return x, e1, y, e2
	}
	x1, e1, y1, f1 := dec(bytes.NewReader(b))
	x2, e2, y2, f2 := dec(&vOneByteReader{b: b})
	verif.Assert((e1 == nil) == (e2 == nil), "the first item is accepted or rejected alike, however the bytes are fragmented")
	if e1 == nil && e2 == nil {
		verif.Assert(verif.DeepEq(x1, x2), "and decodes to the same value")
		verif.Assert((f1 == nil) == (f2 == nil), "the stream is left at the same position (the next item is read alike)")
		if f1 == nil && f2 == nil {
			verif.Assert(verif.DeepEq(y1, y2), "and the next item decodes to the same value")
		}
	}
	verif.Reached("end")
}
