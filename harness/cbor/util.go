//go:build verif

package cbor

import "bytes"

func bytesReader(b []byte) *bytes.Buffer { return bytes.NewBuffer(b) }
