//go:build verif

package cose

import "github.com/fido-device-onboard/go-fdo/internal/verif"

// (e) unpad(pad(b, 16)) == b for every b up to the bound.
func VerifC05_PadUnpad() {
	verif.NoPanic()
	verif.Bound("C05e", "all byte strings of length 0..17 (quick) / 0..33 (thorough)")
	n := verif.Choose("n", 18+16*verif.Tier())
	b := verif.Bytes("b", n)
	orig := append([]byte{}, b...)
	p := pad(b, 16)
	verif.Assert(len(p)%16 == 0 && len(p) > n, "pad yields whole blocks and always adds padding")
	u, err := unpad(p, 16)
	verif.Assert(verif.And(err == nil, verif.BytesEq(u, orig)), "unpad(pad(b)) == b")
	verif.Reached("end")
}

// unpad is total on arbitrary plaintext and never returns more than it was given.
func VerifC05_UnpadTotal() {
	verif.NoPanic()
	verif.Bound("C05e total", "all byte strings of length 0..17 (quick) / 0..33 (thorough)")
	n := verif.Choose("n", 18+16*verif.Tier())
	b := verif.Bytes("b", n)
	u, err := unpad(b, 16)
	if err == nil {
		verif.Assert(len(u) < n, "unpad removes at least one byte")
		verif.Assert(n-len(u) <= 16, "unpad removes at most one block")
	}
	verif.Reached("end")
}

// (f) the CBC crypter is total on attacker-chosen ciphertext and IV: garbage
// plaintext (wrong key, tampering) must produce an error, not a panic.
func VerifC05_CbcDecryptTotal() {
	verif.NoPanic()
	verif.Bound("C05f cbc", "A128CBC; IV absent or length {0,15,16,17}; ciphertext length {0,1,15,16,17,32}; decrypted plaintext arbitrary")
	key := verif.Bytes("key", 16)
	c, err := A128CBC.NewCrypter(key)
	verif.Assert(err == nil, "crypter")
	un := HeaderMap{}
	ivLen := []int{-1, 0, 15, 16, 17}[verif.Choose("ivlen", 5)]
	if ivLen >= 0 {
		un[IvLabel] = verif.Bytes("iv", ivLen)
	}
	ct := verif.Bytes("ct", []int{0, 1, 15, 16, 17, 32}[verif.Choose("ctlen", 6)])
	_, _ = c.Decrypt(nil, ct, nil, un)
	verif.Reached("end")
}

// same for CTR and GCM crypters (IV / nonce length handling)
func VerifC05_StreamDecryptTotal() {
	verif.NoPanic()
	verif.Bound("C05f ctr/gcm", "A128CTR and A128GCM; IV absent or length {0,12,15,16,17}; ciphertext length {0,1,15,16,17}")
	key := verif.Bytes("key", 16)
	alg := []EncryptAlgorithm{A128CTR, A128GCM}[verif.Choose("alg", 2)]
	c, err := alg.NewCrypter(key)
	verif.Assert(err == nil, "crypter")
	un := HeaderMap{}
	ivLen := []int{-1, 0, 12, 15, 16, 17}[verif.Choose("ivlen", 6)]
	if ivLen >= 0 {
		un[IvLabel] = verif.Bytes("iv", ivLen)
	}
	ct := verif.Bytes("ct", []int{0, 1, 15, 16, 17}[verif.Choose("ctlen", 5)])
	var ad []byte
	if alg == A128GCM {
		ad = []byte{0x83}
	}
	_, _ = c.Decrypt(nil, ct, ad, un)
	verif.Reached("end")
}
