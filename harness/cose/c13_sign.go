//go:build verif

package cose

import (
	"crypto"
	"crypto/rsa"

	"github.com/fido-device-onboard/go-fdo/cbor"
	"github.com/fido-device-onboard/go-fdo/internal/verif"
)

func vHead(maj byte, n int) []byte {
	switch {
	case n < 24:
		return []byte{maj<<5 | byte(n)}
	case n <= 0xff:
		return []byte{maj<<5 | 24, byte(n)}
	}
	return []byte{maj<<5 | 25, byte(n >> 8), byte(n)}
}

func vBstr(b []byte) []byte { return append(vHead(2, len(b)), b...) }

// reference Sig_structure / MAC_structure: [context, bstr protected, bstr aad, bstr payload]
func vRefStructure(context string, protected, aad, payload []byte) []byte {
	out := []byte{0x84}
	out = append(out, vHead(3, len(context))...)
	out = append(out, context...)
	out = append(out, vBstr(protected)...)
	out = append(out, vBstr(aad)...)
	out = append(out, vBstr(payload)...)
	return out
}

// protected header {1: alg} serialised (canonical int encoding by the real encoder)
func vRefProtected(alg int64) []byte {
	b, err := cbor.Marshal(alg)
	verif.Assert(err == nil, "harness: encode alg")
	return append([]byte{0xa1, 0x01}, b...)
}

const (
	vKP256 = iota
	vKP384
	vKRSA2048
	vKRSA3072
	vKNil
	vKOther
	vKinds
)

func vKey(kind int) crypto.PublicKey {
	switch kind {
	case vKP256:
		return verif.NewECPub(verif.KindP256, verif.Bytes("xy", 64))
	case vKP384:
		return verif.NewECPub(verif.KindP384, verif.Bytes("xy", 96))
	case vKRSA2048:
		return verif.NewRSAPub(verif.Bytes("n", 256))
	case vKRSA3072:
		return verif.NewRSAPub(verif.Bytes("n", 384))
	case vKNil:
		return nil
	}
	return "not a key"
}

func vSchemeOf(alg int64) (scheme string, h crypto.Hash, ok bool) {
	switch SignatureAlgorithm(alg) {
	case ES256Alg:
		return "ecdsa", crypto.SHA256, true
	case ES384Alg:
		return "ecdsa", crypto.SHA384, true
	case ES512Alg:
		return "ecdsa", crypto.SHA512, true
	case RS256Alg:
		return "rsa-pkcs1-sha256", crypto.SHA256, true
	case RS384Alg:
		return "rsa-pkcs1-sha384", crypto.SHA384, true
	case RS512Alg:
		return "rsa-pkcs1-sha512", crypto.SHA512, true
	case PS256Alg:
		return "rsa-pss-sha256", crypto.SHA256, true
	case PS384Alg:
		return "rsa-pss-sha384", crypto.SHA384, true
	case PS512Alg:
		return "rsa-pss-sha512", crypto.SHA512, true
	}
	return "", 0, false
}

var vSigLensQuick = []int{0, 1, 2, 64, 66, 96, 256}
var vSigLensFull = []int{0, 1, 2, 3, 62, 63, 64, 65, 66, 94, 96, 98, 130, 132, 140, 256, 384}

// (a)+(c)+(d): Verify on arbitrary objects never panics, and returns true only for
// the ideal signature of exactly this Sig_structure under exactly this key.
func VerifC13_VerifyTotalAndSound() {
	verif.Expect("verified")
	verif.NoPanic()
	verif.Bound("C13a", "key kind in {P-256, P-384, RSA-2048, RSA-3072, nil, non-key}; protected alg absent / any int64 / text; signature length in {0,1,2,64,66,96,256} (quick) / {0,1,2,3,62..66,94,96,98,130,132,140,256,384} (thorough); payload nil, empty or 2 bytes; external data nil or 1 (2) bytes; all contents symbolic")
	kind := verif.Choose("kind", vKinds)
	key := vKey(kind)
	lens := vSigLensQuick
	if verif.Tier() > 0 {
		lens = vSigLensFull
	}
	sig := verif.Bytes("sig", lens[verif.Choose("siglen", len(lens))])
	var alg int64
	prot := HeaderMap{}
	algMode := verif.Choose("algmode", 3)
	switch algMode {
	case 0:
		alg = verif.I64("alg")
		prot[AlgLabel] = alg
	case 1: // absent
	case 2:
		prot[AlgLabel] = "ES256"
	}
	var payload, aad []byte
	if verif.Choose("haspayload", 2) == 1 {
		payload = verif.Bytes("payload", 2*verif.Choose("npayload", 2))
	}
	if verif.Choose("hasaad", 2) == 1 {
		aad = verif.Bytes("aad", 1+verif.Tier())
	}
	s1 := Sign1[[]byte, []byte]{Header: Header{Protected: prot}, Signature: sig}
	if payload != nil {
		s1.Payload = cbor.NewByteWrap(payload)
	}
	ok, err := s1.Verify(key, nil, aad)
	if ok {
		verif.Assert(err == nil, "Verify true comes without error")
		verif.Assert(algMode == 0, "Verify true requires an integer alg in the protected header")
		scheme, h, known := vSchemeOf(alg)
		verif.Assert(known, "Verify true requires a registered algorithm")
		verif.Assert(kind <= vKRSA3072, "Verify true requires an ECDSA or RSA key")
		isRSA := kind == vKRSA2048 || kind == vKRSA3072
		if !isRSA {
			// the statement does not bind the algorithm family to the key kind for
			// ECDSA keys: the key kind decides the primitive, the header the hash
			scheme = "ecdsa"
		} else {
			verif.Assert(scheme != "ecdsa", "an RSA key verifies only under an RSA algorithm id")
		}
		verif.Assert(payload != nil, "Verify true requires a payload")
		digest := verif.HashOf(h, vRefStructure("Signature1", vRefProtected(alg), aad, payload))
		verif.Assert(len(sig) == verif.SigLen(key), "Verify true requires a signature of exactly the key's length")
		verif.Assert(verif.BytesEq(sig, verif.IdealSig(scheme, key, digest)), "Verify true only for the signature of this Sig_structure (protected header, external data, payload) under this key")
		verif.Reached("verified")
	}
	verif.Reached("end")
}

// (b) honest round trip: Sign, encode, decode, Verify.
func VerifC13_SignVerifyRoundTrip() {
	verif.NoPanic()
	verif.Bound("C13b", "4 key kinds x {PKCS1v15, PSS} x {attached, detached} payload 0..2 bytes, external data nil or 1 byte; through Sign1Tag encode/decode")
	kind := verif.Choose("kind", 4)
	pub := vKey(kind)
	signer := &verif.ModelSigner{Pub: pub}
	var opts crypto.SignerOpts
	switch kind {
	case vKRSA2048:
		opts = crypto.SHA256
		if verif.Choose("pss", 2) == 1 {
			opts = &rsa.PSSOptions{SaltLength: rsa.PSSSaltLengthEqualsHash, Hash: crypto.SHA256}
		}
	case vKRSA3072:
		opts = crypto.SHA384
		if verif.Choose("pss", 2) == 1 {
			opts = &rsa.PSSOptions{SaltLength: rsa.PSSSaltLengthEqualsHash, Hash: crypto.SHA384}
		}
	}
	payload := verif.Bytes("payload", verif.Choose("npayload", 3))
	var aad []byte
	if verif.Choose("hasaad", 2) == 1 {
		aad = verif.Bytes("aad", 1)
	}
	detached := verif.Choose("detached", 2) == 1
	var s1 Sign1[[]byte, []byte]
	var err error
	if detached {
		err = s1.Sign(signer, &payload, aad, opts)
	} else {
		s1.Payload = cbor.NewByteWrap(payload)
		err = s1.Sign(signer, nil, aad, opts)
	}
	verif.Assert(err == nil, "Sign succeeds for a supported key")
	wire, err := cbor.Marshal(s1.Tag())
	verif.Assert(err == nil, "Sign1Tag encodes")
	var back Sign1Tag[[]byte, []byte]
	verif.Assert(cbor.Unmarshal(wire, &back) == nil, "Sign1Tag decodes")
	var ok bool
	if detached {
		ok, err = back.Verify(pub, &payload, aad)
	} else {
		ok, err = back.Verify(pub, nil, aad)
	}
	verif.Assert(verif.And(err == nil, ok), "a produced signature verifies with the matching key after encode/transmit/decode")
	wire2, err := cbor.Marshal(back)
	verif.Assert(verif.And(err == nil, verif.BytesEq(wire, wire2)), "re-encoding the decoded Sign1 reproduces the wire bytes")
	verif.Reached("end")
}

// (c) the real Sig_structure/MAC_structure encoders are injective in
// (protected alg, external data, payload).
func VerifC13_StructureInjective() { vStructureInjective(false) }

// the same with a second protected entry that may be null-valued: every protected
// entry is covered by the signature / MAC.
func VerifC13_ProtectedEntries() { vStructureInjective(true) }

func vStructureInjective(withExtras bool) {
	verif.NoPanic()
	if withExtras {
		verif.Bound("C13c entries", "two structures, protected header {1: alg any int64} plus an optional second entry (label 99: absent / null / 0..23), external data and payload 1 byte each, contexts Signature1 and MAC0")
	} else {
		verif.Bound("C13c", "two structures, protected header {1: alg any int64}, external data and payload each 0..2 bytes (all length combinations), contexts Signature1 and MAC0")
	}
	enc := func(tag string) ([]byte, int64, []byte, []byte, int) {
		alg := verif.I64("alg" + tag)
		var aad, pl []byte
		if withExtras {
			aad, pl = verif.Bytes("aad"+tag, 1), verif.Bytes("pl"+tag, 1)
		} else {
			aad = verif.Bytes("aad"+tag, verif.Choose("naad"+tag, 3))
			pl = verif.Bytes("pl"+tag, verif.Choose("npl"+tag, 3))
		}
		hm := HeaderMap{AlgLabel: alg}
		protRef := vRefProtected(alg)
		// a second protected entry (label 99): absent / CBOR null / a small unsigned integer
		extra := 0
		if withExtras {
			extra = verif.Choose("extra"+tag, 3)
		}
		switch extra {
		case 1:
			hm[Label{Int64: 99}] = nil
			protRef = append(append([]byte{0xa2}, protRef[1:]...), 0x18, 0x63, 0xf6)
		case 2:
			x := verif.U8("extraval" + tag)
			verif.Assume(x < 24)
			hm[Label{Int64: 99}] = x
			protRef = append(append([]byte{0xa2}, protRef[1:]...), 0x18, 0x63, x)
		}
		prot, err := newEmptyOrSerializedMap(hm)
		verif.Assert(err == nil, "protected header serialises")
		var b []byte
		if verif.Ghost("ctx") == nil {
			b, err = cbor.Marshal(signature1[[]byte, []byte]{Context: sig1Context, BodyProtected: prot, ExternalAad: *cbor.NewByteWrap(aad), Payload: *cbor.NewByteWrap(pl)})
		} else {
			b, err = cbor.Marshal(mac[[]byte, []byte]{Context: mac0Context, Protected: prot, ExternalAAD: *cbor.NewByteWrap(aad), Payload: *cbor.NewByteWrap(pl)})
		}
		verif.Assert(err == nil, "structure encodes")
		ref := "Signature1"
		if verif.Ghost("ctx") != nil {
			ref = "MAC0"
		}
		verif.Assert(verif.BytesEq(b, vRefStructure(ref, protRef, aad, pl)), "structure bytes equal the RFC 8152 reference encoding (every protected entry, including null-valued ones, is covered)")
		return b, alg, aad, pl, extra
	}
	if verif.Choose("mac", 2) == 1 {
		verif.SetGhost("ctx", 1)
	}
	b1, a1, d1, p1, x1 := enc("1")
	b2, a2, d2, p2, x2 := enc("2")
	if verif.BytesEq(b1, b2) {
		verif.Assert(x1 == x2, "equal structure bytes => the same set of protected entries")
		verif.Assert(a1 == a2, "equal structure bytes => equal protected algorithm")
		verif.Assert(verif.BytesEq(d1, d2), "equal structure bytes => equal external data")
		verif.Assert(verif.BytesEq(p1, p2), "equal structure bytes => equal payload")
	}
	verif.Reached("end")
}

// (e) Mac0: digest is a function of (alg, key, protected, external data, payload);
// wrong key size is an error; the tag is the ideal MAC of the reference MAC_structure.
func VerifC13_Mac0() {
	verif.NoPanic()
	verif.Bound("C13e", "HMAC 256/384/512 (ids 5,6,7), key of the required size and one byte shorter/longer, payload and external data 0..2 bytes")
	algs := []MacAlgorithm{HMac256, HMac384, HMac512}
	hashes := []crypto.Hash{crypto.SHA256, crypto.SHA384, crypto.SHA512}
	i := verif.Choose("alg", 3)
	alg := algs[i]
	want := int(alg.KeySize())
	delta := verif.Choose("keydelta", 3) - 1
	key := verif.Bytes("key", want+delta)
	payload := verif.Bytes("payload", verif.Choose("npl", 3))
	aad := verif.Bytes("aad", verif.Choose("naad", 3))
	var m0 Mac0[[]byte, []byte]
	err := m0.Digest(alg, key, &payload, aad)
	if delta != 0 {
		verif.Assert(err != nil, "a MAC key of the wrong size is an error")
		verif.Reached("wrongsize")
		return
	}
	verif.Assert(err == nil, "Digest succeeds with a key of the required size")
	ref := verif.HmacOf(hashes[i], key, vRefStructure("MAC0", vRefProtected(int64(alg)), aad, payload))
	verif.Assert(verif.BytesEq(m0.Value, ref), "tag = HMAC(key, MAC_structure(protected, external data, payload))")
	var again Mac0[[]byte, []byte]
	verif.Assert(again.Digest(alg, key, &payload, aad) == nil, "second Digest succeeds")
	verif.Assert(verif.BytesEq(again.Value, m0.Value), "recomputing the MAC over the same object yields the same tag")
	// verification as callers do it: keep the received tag, recompute, compare.
	// A received tag of the right length but arbitrary content must compare unequal
	// unless it is the genuine tag.
	received := Mac0[[]byte, []byte]{Value: verif.Bytes("receivedtag", len(ref))}
	received.Payload = cbor.NewByteWrap(payload)
	kept := received.Value
	keptCopy := append([]byte{}, received.Value...)
	verif.Assert(received.Digest(alg, key, nil, aad) == nil, "verifier recomputes the tag")
	if verif.BytesEq(received.Value, kept) {
		verif.Assert(verif.BytesEq(keptCopy, ref), "the recompute-and-compare check accepts a received tag only if it is the genuine tag")
	}
	verif.Reached("end")
}

// a payload handed to Verify by the caller (detached-content style) is the payload
// that is verified - an embedded payload does not take its place
func VerifC13_SuppliedPayloadIsVerified() {
	verif.NoPanic()
	verif.Expect("verified")
	verif.Bound("C13 supplied payload", "P-256/ES256; object with an embedded payload A (0..2 bytes) or none; Verify called with a payload argument B (0..2 bytes); signature arbitrary 64 bytes")
	key := vKey(vKP256)
	a := verif.Bytes("pa", verif.Choose("na", 3))
	b := verif.Bytes("pb", verif.Choose("nb", 3))
	var s1 Sign1[[]byte, []byte]
	s1.Protected = HeaderMap{AlgLabel: int64(ES256Alg)}
	if verif.Choose("embedded", 2) == 1 {
		s1.Payload = cbor.NewByteWrap(a)
	}
	s1.Signature = verif.Bytes("sig", 64)
	ok, err := s1.Verify(key, &b, nil)
	if err == nil && ok {
		digest := verif.HashOf(crypto.SHA256, vRefStructure("Signature1", vRefProtected(int64(ES256Alg)), nil, b))
		verif.Assert(verif.BytesEq(s1.Signature, verif.IdealSig("ecdsa", key, digest)), "Verify(key, payload B) true => the signature is over B, the payload the verifier supplied")
		verif.Reached("verified")
	}
	verif.Reached("end")
}

