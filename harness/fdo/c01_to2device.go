//go:build verif

package fdo

import (
	"bytes"
	"context"
	"crypto"
	"crypto/hmac"
	"crypto/sha256"
	"crypto/sha512"
	"errors"
	"io"

	"github.com/fido-device-onboard/go-fdo/cbor"
	"github.com/fido-device-onboard/go-fdo/cose"
	"github.com/fido-device-onboard/go-fdo/internal/verif"
	"github.com/fido-device-onboard/go-fdo/kex"
	"github.com/fido-device-onboard/go-fdo/protocol"
)

// vAdv is the adversary: a Transport answering HelloDevice and GetOVNextEntry with
// shape-bounded messages whose leaves are symbolic, and recording what is sent.
type vAdv struct {
	sent      []uint8
	hello     helloDeviceMsg
	gotHello  bool
	proof     func(h helloDeviceMsg) cose.Sign1Tag[ovhProof, []byte]
	entries   []cose.Sign1Tag[VoucherEntryPayload, []byte]
	numShift  []int // per entry: value added to the echoed index
}

var errStop = errors.New("harness: transport stops at ProveDevice")

func (a *vAdv) Send(_ context.Context, msgType uint8, msg any, _ kex.Session) (uint8, io.ReadCloser, error) {
	a.sent = append(a.sent, msgType)
	switch msgType {
	case protocol.TO2HelloDeviceMsgType:
		a.hello, a.gotHello = msg.(helloDeviceMsg), true
		b, err := cbor.Marshal(a.proof(a.hello))
		verif.Assert(err == nil, "harness: ProveOVHdr encodes")
		return protocol.TO2ProveOVHdrMsgType, io.NopCloser(bytes.NewReader(b)), nil
	case protocol.TO2GetOVNextEntryMsgType:
		req := msg.(struct{ OVEntryNum int })
		i := req.OVEntryNum
		if i < 0 || i >= len(a.entries) {
			return protocol.ErrorMsgType, io.NopCloser(bytes.NewReader([]byte{0x80})), nil
		}
		b, err := cbor.Marshal(ovEntry{OVEntryNum: i + a.numShift[i], OVEntry: a.entries[i]})
		verif.Assert(err == nil, "harness: OVNextEntry encodes")
		return protocol.TO2OVNextEntryMsgType, io.NopCloser(bytes.NewReader(b)), nil
	case protocol.TO2ProveDeviceMsgType:
		return 0, nil, errStop
	}
	return 0, nil, errStop
}

func (a *vAdv) sentType(t uint8) bool {
	for _, x := range a.sent {
		if x == t {
			return true
		}
	}
	return false
}

// The device sends ProveDevice (and so starts depending on the peer) only to a peer
// that presented a voucher binding to this device and proved the last entry's key.
func VerifC01_TO2UntilProveDevice_P256() { vTO2UntilProveDevice(vcP256, false) }
func VerifC01_TO2UntilProveDevice_P384() { vTO2UntilProveDevice(vcP384, false) }

// C10: the same peer-message grammar must never crash the device's TO2 client
func VerifC10_TO2ClientVerifyOwner() { vTO2UntilProveDevice(vcP256, true) }

func vTO2UntilProveDevice(kind int, nopanic bool) {
	verif.Bound("C01", "device key P-256/P-384; peer messages ProveOVHdr + 0..1 (quick) / 0..2 (thorough) OVNextEntry; per path at most 2 (quick) / 3 (thorough) structural deviations from the honest shape; all values (header fields, MACs, hashes, keys, nonces, signatures) symbolic; rendezvous blob absent or present; transport stops at ProveDevice")
	verif.Expect("accepted")
	verif.Expect("not accepted")
	ndev := 0
	pick := func(name string, n, honest int) int {
		v := verif.Choose(name, n)
		if v != honest {
			ndev++
		}
		verif.Assume(ndev <= 2+verif.Tier())
		return v
	}
	n := verif.Choose("nentries", 2+verif.Tier())
	hasNonceHdr := pick("hasnoncehdr", 2, 1) == 1
	hasKeyHdr := pick("haskeyhdr", 2, 1) == 1
	algIdx := pick("alg", 3, kind)
	payloadPresent := pick("payload", 2, 1) == 1
	numDelta := pick("numdelta", 3, 1) - 1 // claimed NumOVEntries = n + delta (-1, 0, +1)
	hdhAlgIdx := pick("hdhalg", 3, 0)
	macAlgIdx := pick("macalg", 3, 0)
	khAlgIdx := pick("khalg", 2, 0)
	shifts := make([]int, n)
	for i := range shifts {
		shifts[i] = pick("numshift"+string(rune('A'+i)), 2, 0)
	}
	hasTo1d := verif.Choose("hasto1d", 2) == 1
	verif.Assume(ndev <= 2+verif.Tier())
	verif.Assume(n+numDelta >= 0)

	// device side
	dev := &verif.ModelSigner{Pub: vcPub(kind, "dev")}
	secret := verif.Bytes("secret", 32)
	var guid protocol.GUID
	copy(guid[:], verif.Bytes("credguid", 16))
	khAlgs := []protocol.HashAlg{protocol.Sha256Hash, protocol.Sha384Hash}
	kh := protocol.Hash{Algorithm: khAlgs[khAlgIdx], Value: verif.Bytes("keyhash", 32)}
	if khAlgIdx == 1 {
		kh.Value = verif.Bytes("keyhash48", 48)
	}
	cfg := TO2Config{
		Cred:        DeviceCredential{Version: 101, DeviceInfo: "d", GUID: guid, PublicKeyHash: kh},
		HmacSha256:  hmac.New(sha256.New, secret),
		HmacSha384:  hmac.New(sha512.New384, secret),
		Key:         dev,
		KeyExchange: kex.ECDH256Suite,
		CipherSuite: kex.A128GcmCipher,
	}
	if kind == vcP384 {
		cfg.KeyExchange = kex.ECDH384Suite
	}

	// peer side: voucher header, entries, advertised key
	verif.SetGhost("fix-mfgkind", kind)
	h := vwMkHeader(true)
	macAlgs := []protocol.HashAlg{protocol.HmacSha256Hash, protocol.HmacSha384Hash, protocol.Sha256Hash}
	h.v.Hmac.Algorithm = macAlgs[macAlgIdx]
	if macAlgIdx == 1 {
		h.v.Hmac.Value = verif.Bytes("mac48", 48)
	}
	adv := &vAdv{numShift: shifts}
	signerKind, signer := h.mk, h.mfgPub
	ownerAfter := []crypto.PublicKey{h.mfgPub} // ownerAfter[k] = owner key after k entries
	var vents []vwEntry
	for i := 0; i < n; i++ {
		e := vwMkEntryR(string(rune('A'+i)), signerKind, signer, true)
		vents = append(vents, e)
		adv.entries = append(adv.entries, e.tag)
		signerKind, signer = e.nextKind, e.nextPub
		ownerAfter = append(ownerAfter, e.nextPub)
	}
	// the device only ever sees the announced number of entries
	m := n + numDelta
	if m > n {
		m = n
	}
	lastKind, lastPub := signerKind, ownerAfter[m]
	advertised := vcPub(kind, "advertised") // the key the peer advertises and signs with (arbitrary)
	var claimedNonce protocol.Nonce
	copy(claimedNonce[:], verif.Bytes("claimednonce", 16))
	var cuphNonce protocol.Nonce
	copy(cuphNonce[:], verif.Bytes("cuphnonce", 16))
	hdhAlgs := []protocol.HashAlg{protocol.Sha256Hash, protocol.Sha384Hash, 0}
	hdh := protocol.Hash{Algorithm: hdhAlgs[hdhAlgIdx], Value: verif.Bytes("hdh", 32)}
	if hdhAlgIdx == 1 {
		hdh.Value = verif.Bytes("hdh48", 48)
	}
	sigAlgs := []int64{int64(cose.ES256Alg), int64(cose.ES384Alg), 0}
	proofSig := verif.Bytes("proofsig", verif.SigLen(advertised))
	// a well-formed ECDH parameter with symbolic point and random
	pl, rl := 32, 16
	if kind == vcP384 {
		pl, rl = 48, 48
	}
	var xA []byte
	xA = append(xA, byte(pl>>8), byte(pl))
	xA = append(xA, verif.Bytes("xa_x", pl)...)
	xA = append(xA, byte(pl>>8), byte(pl))
	xA = append(xA, verif.Bytes("xa_y", pl)...)
	xA = append(xA, byte(rl>>8), byte(rl))
	xA = append(xA, verif.Bytes("xa_r", rl)...)
	adv.proof = func(hello helloDeviceMsg) cose.Sign1Tag[ovhProof, []byte] {
		var p cose.Sign1Tag[ovhProof, []byte]
		p.Protected = cose.HeaderMap{cose.AlgLabel: sigAlgs[algIdx]}
		p.Unprotected = cose.HeaderMap{}
		if hasNonceHdr {
			p.Unprotected[to2NonceClaim] = cuphNonce
		}
		if hasKeyHdr {
			pk := vwPublicKey(kind, advertised)
			p.Unprotected[to2OwnerPubKeyClaim] = &pk
		}
		if payloadPresent {
			p.Payload = cbor.NewByteWrap(ovhProof{
				OVH: h.v.Header, NumOVEntries: uint8(n + numDelta), OVHHmac: h.v.Hmac,
				NonceTO2ProveOV: claimedNonce, SigInfoB: hello.SigInfoA,
				KeyExchangeA: xA, HelloDeviceHash: hdh, MaxOwnerMessageSize: 65535,
			})
		}
		p.Signature = proofSig
		return p
	}
	var to1d *cose.Sign1[protocol.To1d, []byte]
	if hasTo1d {
		dns := "o"
		to1d = &cose.Sign1[protocol.To1d, []byte]{Payload: cbor.NewByteWrap(protocol.To1d{
			RV:       []protocol.RvTO2Addr{{DNSAddress: &dns, Port: 8080, TransportProtocol: protocol.HTTPTransport}},
			To0dHash: protocol.Hash{Algorithm: protocol.Sha256Hash, Value: verif.Bytes("to0dhash", 32)},
		})}
		to1d.Protected = cose.HeaderMap{cose.AlgLabel: sigAlgs[kind]}
		to1d.Unprotected = cose.HeaderMap{}
		to1d.Signature = verif.Bytes("to1dsig", verif.SigLen(advertised))
	}

	var cred *DeviceCredential
	var terr error
	panicked := vRun(nopanic, func() { cred, terr = TO2(context.Background(), adv, to1d, cfg) })
	if adv.gotHello {
		verif.Assert(verif.IsFreshRandom(adv.hello.NonceTO2ProveOV[:]), "the HelloDevice nonce is fresh randomness of this run (a recorded owner proof cannot be replayed)")
	}
	if !adv.sentType(protocol.TO2ProveDeviceMsgType) {
		verif.Assert(panicked || (cred == nil && terr != nil), "a peer that is not accepted makes TO2 return an error and no credential")
		verif.Reached("not accepted")
		return
	}
	verif.Reached("accepted")
	verif.Assert(!panicked, "accepted run does not crash")
	// ---- Spec01 ----
	verif.Assert(payloadPresent && hasKeyHdr && hasNonceHdr, "accepted => ProveOVHdr has payload, owner key header and nonce header")
	verif.Assert(numDelta <= 0, "accepted => every announced entry was delivered")
	for i := range shifts[:m] {
		verif.Assert(shifts[i] == 0, "accepted => every OVNextEntry echoed the requested index")
	}
	hdrEnc := vwMust(cbor.Marshal(&h.hdr))
	verif.Assert(macAlgIdx != 2, "accepted => header MAC uses an HMAC id")
	mh := crypto.SHA256
	if macAlgIdx == 1 {
		mh = crypto.SHA384
	}
	verif.Assert(verif.BytesEq(h.v.Hmac.Value, verif.HmacOf(mh, secret, hdrEnc)), "accepted => voucher header MAC verifies under the device's secret")
	mkEnc := vwMust(cbor.Marshal(&h.hdr.ManufacturerKey))
	verif.Assert(verif.BytesEq(kh.Value, vwHashOf(kh.Algorithm, mkEnc)), "accepted => manufacturer key matches the key hash in the device credential")
	ov := Voucher{Header: h.v.Header, Hmac: h.v.Hmac, Entries: adv.entries[:m]}
	verif.Assert(ov.VerifyEntries() == nil, "accepted => the entry chain verifies link by link")
	vwSpecEntries("accepted", h, h.v.Hmac, vents[:m])
	verif.Assert(verif.BytesEq(verif.KeyID(advertised), verif.KeyID(lastPub)), "accepted => the advertised owner key is the key of the chain's last entry")
	_ = lastKind
	verif.Assert(adv.gotHello, "HelloDevice was sent")
	proof := adv.proof(adv.hello)
	ok, verr := proof.Verify(lastPub, nil, nil)
	verif.Assert(verr == nil && ok, "accepted => ProveOVHdr is signed with the private key of the chain's last entry")
	verif.Assert(vwSpecSigned(kind, lastPub, sigAlgs[algIdx], vwMust(cbor.Marshal(proof.Payload.Val)), proofSig), "accepted => ProveOVHdr's signature is the last entry key's signature over its protected header and payload (reference predicate)")
	verif.Assert(claimedNonce == adv.hello.NonceTO2ProveOV, "accepted => ProveOVHdr echoes the device's fresh HelloDevice nonce")
	helloEnc := vwMust(cbor.Marshal(adv.hello))
	verif.Assert(hdhAlgIdx != 2 && verif.BytesEq(hdh.Value, vwHashOf(hdh.Algorithm, helloEnc)), "accepted => ProveOVHdr carries the hash of the HelloDevice message")
	if hasTo1d {
		ok, verr := to1d.Verify(lastPub, nil, nil)
		verif.Assert(verr == nil && ok, "accepted => the rendezvous blob is signed by that same key")
		verif.Assert(vwSpecSigned(kind, lastPub, sigAlgs[kind], vwMust(cbor.Marshal(to1d.Payload.Val)), to1d.Signature), "accepted => the rendezvous blob's signature is that same key's signature over its protected header and payload (reference predicate)")
	}
}

// the device's HMAC engine may fault while the voucher header is checked: the owner
// is still accepted only if the header MAC is the device's
func VerifC01_FallibleHmac() {
	verif.NoPanic()
	verif.SetGhost("clock-concrete", 1)
	verif.Expect("accepted")
	verif.Expect("not accepted")
	verif.Bound("C01 hmac fault", "P-256; honest owner service and voucher except for the header MAC (arbitrary 0 or 32 bytes); the device's HMAC-SHA256 engine faults at its 1st or 2nd Sum or never, a faulting Sum returning 0 or 32 arbitrary bytes; transport stops at ProveDevice")
	t := vMkTO2World(vcP256, false)
	t.loop.cutAt, t.loop.cutKind = 2, 0
	ov := t.c.w.store.vouchers[t.c.guid]
	claimed := verif.Bytes("claimedmac", 32*verif.Choose("mac32", 2))
	ov.Hmac.Value = claimed
	// the first entry commits to header||MAC: rebuild the extension over the claimed MAC
	base := *ov
	base.Entries = nil
	mfg := &verif.ModelSigner{Pub: vwMust2(ov.Header.Val.ManufacturerKey.Public())}
	x, err := vwExtend(&base, mfg, t.c.owner.Public())
	verif.Assert(err == nil, "harness: extend")
	t.c.w.store.vouchers[t.c.guid] = x
	eng := &vFallibleHmac{Hash: hmac.New(sha256.New, t.secret), failAt: verif.Choose("failat", 3), garbageLen: 32 * verif.Choose("garbage32", 2)}
	t.cfg.HmacSha256 = eng
	cred, terr := TO2(context.Background(), t.loop, nil, t.cfg)
	verif.Assert(cred == nil && terr != nil, "the run is cut at ProveDevice")
	sent64 := false
	for _, m := range t.loop.sent {
		if m == protocol.TO2ProveDeviceMsgType {
			sent64 = true
		}
	}
	if !sent64 {
		verif.Reached("not accepted")
		return
	}
	verif.Reached("accepted")
	hdrEnc := vwMust(cbor.Marshal(&ov.Header.Val))
	verif.Assert(verif.BytesEq(claimed, verif.HmacOf(crypto.SHA256, t.secret, hdrEnc)), "the device goes on to ProveDevice => the voucher header MAC verifies under the device's secret, also with an HMAC engine that can fault")
}
