//go:build verif

package fdo

import (
	nethttp "net/http"
	"net/url"
	"strconv"

	"bytes"
	"context"
	"crypto/rsa"
	"io"

	"github.com/fido-device-onboard/go-fdo/cbor"
	"github.com/fido-device-onboard/go-fdo/cose"
	"github.com/fido-device-onboard/go-fdo/internal/verif"
	"github.com/fido-device-onboard/go-fdo/kex"
	"github.com/fido-device-onboard/go-fdo/protocol"
)

// vSess is a recording kex.Session.
type vSess struct {
	setParam  [][]byte
	destroyed bool
	keyed     bool
}

func (s *vSess) Parameter(io.Reader, *rsa.PublicKey) ([]byte, error) { return []byte{1}, nil }
func (s *vSess) SetParameter(xB []byte, _ *rsa.PrivateKey) error {
	s.setParam = append(s.setParam, append([]byte{}, xB...))
	s.keyed = true
	return nil
}
func (s *vSess) Encrypt(_ io.Reader, payload any) (any, error) { return payload, nil }
func (s *vSess) Decrypt(_ io.Reader, r io.Reader) ([]byte, error) { return io.ReadAll(r) }
func (s *vSess) Destroy()                                           { s.destroyed = true }

// an owner-side world: one stored voucher with one entry, owner key registered
type vOwnerWorld struct {
	st     *vState
	srv    *TO2Server
	guid   protocol.GUID
	dev    *verif.ModelSigner
	owner  *verif.ModelSigner
	ov     *Voucher
	sess   *vSess
}

func vMkOwnerWorld(kind int) *vOwnerWorld {
	w := &vOwnerWorld{st: newVState()}
	mfg := &verif.ModelSigner{Pub: vcPub(kind, "mfg")}
	secret := verif.Bytes("secret", 32)
	ov, owners := vwHonestVoucherDev(kind, mfg, 1, secret, &w.dev)
	w.ov = ov
	w.owner = owners[1]
	w.guid = ov.Header.Val.GUID
	w.st.vouchers[w.guid] = ov
	w.st.ownerKeys[ov.Header.Val.ManufacturerKey.Type] = w.owner
	w.srv = &TO2Server{Session: w.st, Vouchers: w.st, OwnerKeys: w.st,
		RvInfo: func(context.Context, Voucher) ([][]protocol.RvInstruction, error) { return nil, nil }}
	return w
}

// TO2.ProveDevice against the real owner responder.
func VerifC02_SetupDeviceSpec() { vSetupDeviceSpec(false) }

// C10: the same token grammar must never crash the owner responder
func VerifC10_TO2ProveDevice() { vSetupDeviceSpec(true) }

func vSetupDeviceSpec(nopanic bool) {
	verif.Expect("served")
	verif.Expect("rejected")
	verif.Bound("C02", "owner/device/manufacturer key kind in {P-256, P-384}; voucher with 1 entry; session: GUID present/absent, ProveDevice nonce present/absent, key-exchange session present/absent; EAT: payload present/null; nonce claim absent / 16 symbolic bytes / integer; UEID claim absent / 17 symbolic bytes / 16 bytes / integer; FDO claim absent / [bytes 1..2] / [] / [int] / [b,b] / bytes; unprotected SetupDevice nonce present/absent; protected alg in {ES256, ES384, unregistered}; signature symbolic; at most 2 (quick) / 3 (thorough) structural deviations from the honest shape per path")
	kind := verif.Choose("kind", 2)
	// deviation budget: at most 2 (quick) / 3 (thorough) structural deviations from the
	// honest message and session shape per path (all symbolic VALUES stay arbitrary)
	ndev := 0
	pick := func(name string, n, honest int) int {
		v := verif.Choose(name, n)
		if v != honest {
			ndev++
		}
		verif.Assume(ndev <= 2+verif.Tier())
		return v
	}
	hasGUID, hasNonce, hasSess := pick("hasguid", 2, 1), pick("hasnonce", 2, 1), pick("hassess", 2, 1)
	nonceShape, ueidShape := pick("nonceclaim", 3, 1), pick("ueidclaim", 4, 1)
	fdoShape := pick("fdoclaim", 6, 1)
	algIdx := pick("alg", 3, kind)
	hasSetupNonce := pick("hassetupnonce", 2, 1) == 1
	payloadPresent := pick("payload", 2, 1) == 1
	verif.Assume(ndev <= 2+verif.Tier())
	w := vMkOwnerWorld(kind)
	var proveNonce protocol.Nonce
	copy(proveNonce[:], verif.Bytes("provenonce", 16))
	if hasGUID == 1 {
		w.st.guid = &w.guid
	}
	if hasNonce == 1 {
		w.st.proveNonce = &proveNonce
	}
	w.sess = &vSess{}
	if hasSess == 1 {
		w.st.xSuite, w.st.xSess = kex.ECDH256Suite, w.sess
	}
	eat := eatoken{}
	var nonceClaim, ueid, xB []byte
	switch nonceShape {
	case 1:
		nonceClaim = verif.Bytes("nonce", 16)
		eat[eatNonceClaim] = nonceClaim
	case 2:
		eat[eatNonceClaim] = int64(7)
	}
	switch ueidShape {
	case 1:
		ueid = verif.Bytes("ueid", 17)
		eat[eatUeidClaim] = ueid
	case 2:
		ueid = verif.Bytes("ueid16", 16)
		eat[eatUeidClaim] = ueid
	case 3:
		eat[eatUeidClaim] = int64(1)
	}
	switch fdoShape {
	case 1:
		xB = verif.Bytes("xb", 1+verif.Choose("nxb", 2))
		eat[eatFdoClaim] = []any{xB}
	case 2:
		eat[eatFdoClaim] = []any{}
	case 3:
		eat[eatFdoClaim] = []any{int64(3)}
	case 4:
		eat[eatFdoClaim] = []any{[]byte{1}, []byte{2}}
	case 5:
		eat[eatFdoClaim] = []byte{1}
	}
	var token cose.Sign1Tag[eatoken, []byte]
	algs := []int64{int64(cose.ES256Alg), int64(cose.ES384Alg), 0}
	token.Protected = cose.HeaderMap{cose.AlgLabel: algs[algIdx]}
	token.Unprotected = cose.HeaderMap{}
	var setupNonce protocol.Nonce
	copy(setupNonce[:], verif.Bytes("setupnonce", 16))
	if hasSetupNonce {
		token.Unprotected[eatUnprotectedNonceClaim] = setupNonce
	}
	if payloadPresent {
		token.Payload = cbor.NewByteWrap(eat)
	}
	token.Signature = verif.Bytes("sig", verif.SigLen(w.dev.Pub))
	wire, err := cbor.Marshal(token)
	verif.Assert(err == nil, "harness: token encodes")

	var rt uint8
	var resp any
	panicked := vRun(nopanic, func() { rt, resp = w.srv.Respond(context.Background(), protocol.TO2ProveDeviceMsgType, bytes.NewReader(wire)) })
	served := !panicked && rt == protocol.TO2SetupDeviceMsgType
	if !served && len(w.sess.setParam) == 0 {
		verif.Reached("rejected")
		return
	}
	// SetupDevice was sent, or the key exchange was completed: the device must be proven
	verif.Reached("served")
	verif.Assert(payloadPresent, "served => the token has a payload")
	verif.Assert(w.st.guid != nil && w.st.proveNonce != nil && w.st.xSess != nil, "served => the session holds GUID, ProveDevice nonce and key-exchange state from this session's earlier messages")
	untagged := token.Sign1
	ok, verr := untagged.Verify(w.dev.Pub, nil, nil)
	verif.Assert(verr == nil && ok, "served => the token is signed with the key of the voucher's device certificate")
	verif.Assert(vwSpecSigned(kind, w.dev.Pub, algs[algIdx], vwMust(cbor.Marshal(eat)), token.Signature), "served => the token's signature is the device key's over its protected header and payload (reference predicate)")
	verif.Assert(len(nonceClaim) == 16 && verif.BytesEq(nonceClaim, proveNonce[:]), "served => the token carries the ProveDevice nonce the owner issued in this session")
	verif.Assert(len(ueid) == 17 && ueid[0] == 1 && verif.BytesEq(ueid[1:], w.guid[:]), "served => the UEID names the voucher's GUID")
	verif.Assert(fdoShape == 1, "served => the FDO claim is one byte string")
	verif.Assert(len(w.sess.setParam) == 1 && verif.BytesEq(w.sess.setParam[0], xB), "served => the tunnel keys are derived from exactly this token's key-exchange parameter")
	if served {
		sd, isSD := resp.(*cose.Sign1Tag[deviceSetup, []byte])
		verif.Assert(isSD, "SetupDevice body")
		verif.Assert(hasSetupNonce && sd.Payload.Val.NonceTO2SetupDv == setupNonce, "SetupDevice echoes the device's SetupDevice nonce")
		ok, verr := sd.Verify(w.owner.Pub, nil, nil)
		verif.Assert(verr == nil && ok, "SetupDevice is signed by the owner key")
	}
}

// honest ProveDevice is served
func VerifC02_HonestServed() {
	verif.NoPanic()
	verif.Bound("C02 honest", "key kind in {P-256, P-384, RSA-2048}; token built by the real client code path")
	kind := verif.Choose("kind", 3)
	w := vMkOwnerWorld(kind)
	var proveNonce, setupNonce protocol.Nonce
	copy(proveNonce[:], verif.Bytes("provenonce", 16))
	copy(setupNonce[:], verif.Bytes("setupnonce", 16))
	w.st.guid, w.st.proveNonce = &w.guid, &proveNonce
	w.sess = &vSess{}
	w.st.xSuite, w.st.xSess = kex.ECDH256Suite, w.sess
	xB := verif.Bytes("xb", 2)
	token := cose.Sign1[eatoken, []byte]{
		Header:  cose.Header{Unprotected: map[cose.Label]any{eatUnprotectedNonceClaim: setupNonce}},
		Payload: cbor.NewByteWrap(newEAT(w.guid, proveNonce, struct{ KeyExchangeB []byte }{xB}, nil)),
	}
	opts, err := signOptsFor(w.dev, false)
	verif.Assert(err == nil, "opts")
	verif.Assert(token.Sign(w.dev, nil, nil, opts) == nil, "device signs")
	wire, err := cbor.Marshal(token.Tag())
	verif.Assert(err == nil, "token encodes")
	rt, _ := w.srv.Respond(context.Background(), protocol.TO2ProveDeviceMsgType, bytes.NewReader(wire))
	verif.Assert(rt == protocol.TO2SetupDeviceMsgType, "the proven device is answered with SetupDevice")
	verif.Assert(len(w.sess.setParam) == 1 && verif.BytesEq(w.sess.setParam[0], xB), "and the key exchange is completed with its parameter")
	verif.Reached("end")
}

// before ProveDevice was accepted there is no tunnel: a peer that only sent
// HelloDevice cannot get 66/68/70 processed by encrypting them under a key of its
// own choosing (all-zero, arbitrary, empty) - the session has no key yet
func VerifC02_NoTunnelBeforeProveDevice() {
	verif.NoPanic()
	verif.SetGhost("clock-concrete", 1)
	verif.Bound("C02 pre-proof", "owner HTTP handler; session after HelloDevice holding the REAL key-exchange session (ECDH256, ECDH384, DHKEXid14 or ASYMKEX2048 with cipher A128GCM, A256GCM or COSEAES128CTR) as created by proveOVHdr; one request 66, 68 or 70 encrypted by the peer with a SessionCrypter of the same suite under an all-zero key, an arbitrary key, or sent as plaintext")
	c := vC08Setup()
	w := c.w
	s := w.newSession("TA")
	c.fill(s, pTO2Hello, "A")
	suite := []kex.Suite{kex.ECDH256Suite, kex.ECDH384Suite, kex.DHKEXid14Suite, kex.ASYMKEX2048Suite}[verif.Choose("kex", 4)]
	cipher := []kex.CipherSuiteID{kex.A128GcmCipher, kex.A256GcmCipher, kex.CoseAes128CtrCipher}[verif.Choose("cipher", 3)]
	verif.SetGhost("exp-leading-zero-bytes", 0)
	verif.SetGhost("exp-nondegenerate", 1)
	verif.SetGhost("rand-top-nonzero", 1)
	sess := suite.New(nil, cipher)
	var pub *rsa.PublicKey
	if suite == kex.ASYMKEX2048Suite {
		pub = verif.NewRSAPub(verif.Bytes("n", 256))
	}
	_, err := sess.Parameter(verif.M_RandReader, pub)
	verif.Assert(err == nil, "owner key-exchange parameter")
	s.xSuite, s.xSess = suite, sess
	msgType := []int{66, 68, 70}[verif.Choose("msgtype", 3)]
	plain := c.body(msgType, s)
	var body []byte
	cs := cipher.Suite()
	switch mode := verif.Choose("attack", 3); mode {
	case 2:
		body = plain
	default:
		att := kex.SessionCrypter{ID: cipher, Cipher: cs}
		att.SEK = make([]byte, cs.EncryptAlg.KeySize())
		if cs.MacAlg != 0 {
			att.SVK = make([]byte, cs.MacAlg.KeySize())
		}
		if mode == 1 {
			att.SEK = verif.Bytes("attsek", len(att.SEK))
			if cs.MacAlg != 0 {
				att.SVK = verif.Bytes("attsvk", len(att.SVK))
			}
		}
		msg, err := att.Encrypt(verif.M_RandReader, cbor.RawBytes(plain))
		verif.Assert(err == nil, "harness: attacker encrypts")
		body, err = cbor.Marshal(msg)
		verif.Assert(err == nil, "harness: encode")
	}
	hdr := nethttp.Header{}
	hdr.Set("Authorization", "Bearer TA")
	req := &nethttp.Request{Method: "POST", URL: &url.URL{Path: "/fdo/101/msg/" + strconv.Itoa(msgType)}, Header: hdr,
		Body: io.NopCloser(bytes.NewReader(body)), ContentLength: int64(len(body))}
	rec := &vRecorder{hdr: nethttp.Header{}}
	c.h.ServeHTTP(rec, req)
	rt, _ := strconv.Atoi(rec.hdr.Get("Message-Type"))
	verif.Assert(rt == 255, "a TO2 message after ProveDevice's position is answered with an error while the device has not been proven, whatever key the peer chose")
	verif.Assert(w.count("ReplaceVoucher")+w.count("HandleInfo")+w.count("ProduceInfo") == 0, "and has no effect")
	if a := w.sessions["TA"]; a != nil {
		verif.Assert(a.mtu == nil && a.replHmac == nil && a.devmod == nil, "and leaves no post-proof state")
	}
	verif.Reached("end")
}
