//go:build verif

package fdo

import (
	"bytes"
	"context"
	"crypto/hmac"
	"crypto/sha256"
	"crypto/sha512"
	"crypto/x509"
	"crypto"
	"errors"
	"hash"
	"io"

	"github.com/fido-device-onboard/go-fdo/cbor"
	"github.com/fido-device-onboard/go-fdo/internal/verif"
	"github.com/fido-device-onboard/go-fdo/kex"
	"github.com/fido-device-onboard/go-fdo/protocol"
	"github.com/fido-device-onboard/go-fdo/serviceinfo"
)

// vLoop connects the real device-side TO2 to the real TO2Server.Respond.
// Messages are CBOR-encoded and decoded on both sides; the tunnel is not
// applied (it is C05's subject). A fault can be injected at one message index.
type vLoop struct {
	srv      *TO2Server
	sctx     context.Context
	sent     []uint8
	replies  []uint8
	cutAt    int // message index at which the fault happens (-1: none)
	cutKind  int // 0 request lost, 1 response lost (server processed it), 2 peer error message
	tamper   func(reqType, respType uint8, resp any) (uint8, any)
	doneAccepted bool
	maxReq68, maxResp69 int
}

var errCut = errors.New("harness: transport fault")

func (l *vLoop) Send(_ context.Context, msgType uint8, msg any, _ kex.Session) (uint8, io.ReadCloser, error) {
	idx := len(l.sent)
	l.sent = append(l.sent, msgType)
	if msgType == protocol.ErrorMsgType {
		return 0, nil, errCut
	}
	if idx == l.cutAt && l.cutKind == 0 {
		return 0, nil, errCut
	}
	body, err := cbor.Marshal(msg)
	verif.Assert(err == nil, "harness: request encodes")
	if msgType == protocol.TO2DeviceServiceInfoMsgType && len(body) > l.maxReq68 {
		l.maxReq68 = len(body)
	}
	rt, resp := l.srv.Respond(l.sctx, msgType, bytes.NewReader(body))
	l.replies = append(l.replies, rt)
	if rt == protocol.TO2Done2MsgType {
		l.doneAccepted = true
	}
	if idx == l.cutAt && l.cutKind == 1 {
		return 0, nil, errCut
	}
	if idx == l.cutAt && l.cutKind == 2 {
		rt, resp = protocol.ErrorMsgType, protocol.ErrorMessage{Code: 500, PrevMsgType: msgType, ErrString: "injected"}
	}
	if l.tamper != nil {
		rt, resp = l.tamper(msgType, rt, resp)
	}
	out, err := cbor.Marshal(resp)
	verif.Assert(err == nil, "harness: response encodes")
	if rt == protocol.TO2OwnerServiceInfoMsgType && len(out) > l.maxResp69 {
		l.maxResp69 = len(out)
	}
	return rt, io.NopCloser(bytes.NewReader(out)), nil
}

type vTO2World struct {
	c      *vC08
	loop   *vLoop
	cfg    TO2Config
	secret []byte
	cred   DeviceCredential
}

// vRvMode selects what rendezvous info the new owner assigns: 0 different, 1 unchanged, 2 empty
var vRvMode int

func vSameRvInfo(a, b [][]protocol.RvInstruction) bool {
	if len(a) != len(b) {
		return false
	}
	for i := range a {
		if len(a[i]) != len(b[i]) {
			return false
		}
		for j := range a[i] {
			if a[i][j].Variable != b[i][j].Variable || !bytes.Equal(a[i][j].Value, b[i][j].Value) {
				return false
			}
		}
	}
	return true
}

func vMkTO2World(kind int, reuse bool) *vTO2World {
	t := &vTO2World{}
	c := &vC08{w: newVWorld()}
	t.c = c
	mfg := &verif.ModelSigner{Pub: vcPub(kind, "mfg")}
	t.secret = verif.Bytes("secret", 32)
	ov, owners := vwHonestVoucherDev(kind, mfg, 1, t.secret, &c.dev)
	c.ov, c.owner, c.guid = ov, owners[1], ov.Header.Val.GUID
	c.w.store.vouchers[c.guid] = ov
	c.w.store.ownerKeys[ov.Header.Val.ManufacturerKey.Type] = c.owner
	srv := &TO2Server{Session: c.w, Modules: &vModules{c.w}, Vouchers: c.w, OwnerKeys: c.w,
		RvInfo: func(context.Context, Voucher) ([][]protocol.RvInstruction, error) {
			switch vRvMode {
			case 1: // the same directives the device already has
				return ov.Header.Val.RvInfo, nil
			case 2: // none
				return [][]protocol.RvInstruction{}, nil
			}
			return [][]protocol.RvInstruction{{{Variable: protocol.RVDns, Value: []byte{0x61, 0x6f}}}}, nil
		}}
	if reuse {
		srv.ReuseCredential = func(context.Context, Voucher) (bool, error) { return true, nil }
	}
	c.w.newSession("T1")
	t.loop = &vLoop{srv: srv, sctx: c.w.TokenContext(context.Background(), "T1"), cutAt: -1}
	mkEnc := vwMust(cbor.Marshal(&ov.Header.Val.ManufacturerKey))
	halg := ov.Header.Val.CertChainHash.Algorithm
	t.cred = DeviceCredential{Version: 101, DeviceInfo: ov.Header.Val.DeviceInfo, GUID: c.guid, RvInfo: ov.Header.Val.RvInfo,
		PublicKeyHash: protocol.Hash{Algorithm: halg, Value: vwHashOf(halg, mkEnc)}}
	suite := kex.ECDH256Suite
	if kind == vcP384 {
		suite = kex.ECDH384Suite
	}
	t.cfg = TO2Config{
		Cred:        t.cred,
		HmacSha256:  hmac.New(sha256.New, t.secret),
		HmacSha384:  hmac.New(sha512.New384, t.secret),
		Key:         c.dev,
		KeyExchange: suite,
		CipherSuite: kex.A128GcmCipher,
		Devmod: serviceinfo.Devmod{Os: "o", Arch: "a", Version: "v", Device: "d", FileSep: "/", Bin: "b"},
		AllowCredentialReuse: reuse,
	}
	return t
}

func vCheckAgreement(v *Voucher, cred *DeviceCredential, secret []byte, what string) {
	verif.Assert(v.VerifyHeader(hmac.New(sha256.New, secret), hmac.New(sha512.New384, secret)) == nil, what+": stored voucher header MAC verifies under the device secret")
	verif.Assert(v.VerifyManufacturerKey(cred.PublicKeyHash) == nil, what+": stored voucher's manufacturer key matches the credential's key hash")
	verif.Assert(v.VerifyCertChainHash() == nil, what+": device certificate hash verifies")
	verif.Assert(v.VerifyEntries() == nil, what+": entries verify")
	verif.Assert(v.Header.Val.GUID == cred.GUID, what+": GUID agrees")
	verif.Assert(vSameRvInfo(v.Header.Val.RvInfo, cred.RvInfo), what+": rendezvous info agrees")
	verif.Assert(verif.StrEq(v.Header.Val.DeviceInfo, cred.DeviceInfo), what+": device info agrees")
}

// A complete TO2 between the real device code and the real owner responder.
func VerifC03_TO2Agreement() {
	verif.NoPanic()
	verif.Bound("C03 TO2", "device/owner/manufacturer key kind in {P-256, P-384}; voucher with one entry; one owner module that finishes immediately, no device modules; the new owner assigns different / the same / no rendezvous directives; honest run over a loopback transport (one cooperative schedule); all key material, secrets, GUIDs, nonces symbolic")
	kind := verif.Choose("kind", 2)
	vRvMode = verif.Choose("rvmode", 3)
	t := vMkTO2World(kind, false)
	cred, err := TO2(context.Background(), t.loop, nil, t.cfg)
	vRvMode = 0
	// the owner's random replacement GUID coinciding with the current GUID (probability 2^-128)
	// would turn an unchanged-directives handover into a credential-reuse request
	if rs := t.c.w.sessions["T1"]; rs != nil && rs.replGUID != nil {
		verif.AssumeMsg(*rs.replGUID != t.c.guid, "the random replacement GUID differs from the device's current GUID")
	}
	verif.Assert(err == nil, "honest TO2 succeeds")
	verif.Assert(cred != nil, "and returns a replacement credential")
	verif.Assert(t.c.w.count("ReplaceVoucher") == 1, "the owner replaced the voucher exactly once")
	_, stillOld := t.c.w.store.vouchers[t.c.guid]
	verif.Assert(!stillOld || cred.GUID == t.c.guid, "the old voucher is gone")
	nv, ok := t.c.w.store.vouchers[cred.GUID]
	verif.Assert(ok, "the replacement voucher is stored under the credential's new GUID")
	vCheckAgreement(nv, cred, t.secret, "after TO2")
	// the credential survives its blob encoding
	enc, err := cbor.Marshal(cred)
	verif.Assert(err == nil, "credential encodes")
	var back DeviceCredential
	verif.Assert(cbor.Unmarshal(enc, &back) == nil, "credential decodes")
	vCheckAgreement(nv, &back, t.secret, "after re-reading the credential")
	verif.Reached("end")
}

// credential reuse: neither side changes anything
func VerifC03_Reuse() {
	verif.NoPanic()
	verif.Bound("C03 reuse", "as C03 TO2 with the owner's reuse policy on and the device allowing reuse")
	kind := verif.Choose("kind", 2)
	t := vMkTO2World(kind, true)
	before := t.c.w.store.vouchers[t.c.guid]
	cred, err := TO2(context.Background(), t.loop, nil, t.cfg)
	verif.Assert(err == nil && cred == nil, "credential reuse reports success without a new credential")
	verif.Assert(t.c.w.count("ReplaceVoucher") == 0, "the owner's voucher is not replaced")
	verif.Assert(t.c.w.store.vouchers[t.c.guid] == before, "the stored voucher is unchanged")
	verif.Reached("end")
}

// a fault at any message before the owner accepted Done leaves the owner's voucher
// store unchanged and gives the device no credential
func VerifC03_CutPoints() {
	verif.NoPanic()
	verif.Bound("C03 cut", "P-256; fault at message index 0..9 of kind request-lost / response-lost / peer error message")
	t := vMkTO2World(vcP256, false)
	t.loop.cutAt = verif.Choose("cutat", 10)
	t.loop.cutKind = verif.Choose("cutkind", 3)
	before := t.c.w.store.vouchers[t.c.guid]
	cred, err := TO2(context.Background(), t.loop, nil, t.cfg)
	if t.loop.cutAt < len(t.loop.sent) && !(t.loop.doneAccepted && t.loop.cutKind != 0) {
		verif.Assert(err != nil && cred == nil, "a TO2 that failed before the owner accepted Done yields no credential")
	}
	if !t.loop.doneAccepted {
		verif.Assert(t.c.w.count("ReplaceVoucher") == 0 && t.c.w.store.vouchers[t.c.guid] == before, "before the owner accepted Done its voucher store is unchanged")
	}
	if err == nil && cred != nil {
		nv, ok := t.c.w.store.vouchers[cred.GUID]
		verif.Assert(ok, "a returned credential has its voucher stored")
		vCheckAgreement(nv, cred, t.secret, "after a run that survived the fault")
	}
	verif.Reached("end")
}

// generic loopback for DI/TO0/TO1 responders
type vRespLoop struct {
	resp interface {
		Respond(ctx context.Context, msgType uint8, msg io.Reader) (uint8, any)
	}
	sctx  context.Context
	sent  []uint8
	cutAt int
}

func (l *vRespLoop) Send(_ context.Context, msgType uint8, msg any, _ kex.Session) (uint8, io.ReadCloser, error) {
	idx := len(l.sent)
	l.sent = append(l.sent, msgType)
	if msgType == protocol.ErrorMsgType || idx == l.cutAt {
		return 0, nil, errCut
	}
	body, err := cbor.Marshal(msg)
	verif.Assert(err == nil, "harness: request encodes")
	rt, resp := l.resp.Respond(l.sctx, msgType, bytes.NewReader(body))
	out, err := cbor.Marshal(resp)
	verif.Assert(err == nil, "harness: response encodes")
	return rt, io.NopCloser(bytes.NewReader(out)), nil
}

// DI between the real device code and the real manufacturer responder
func VerifC03_DIAgreement() {
	verif.NoPanic()
	verif.Bound("C03 DI", "device and manufacturer key kind in {P-256, P-384, RSA-2048, RSA-3072}^2; device info 1 symbolic byte; one rendezvous directive; fault at message index 0..1 or none")
	dk := verif.Choose("devkind", vcKinds)
	mk := verif.Choose("mfgkind", vcKinds)
	dev := &verif.ModelSigner{Pub: vcPub(dk, "dev")}
	mfgPub := vcPub(mk, "mfg")
	secret := verif.Bytes("secret", 32)
	w := newVWorld()
	w.newSession("T1")
	cert := verif.NewCert(dev.Pub, verif.Bytes("serial", 4))
	info := verif.String("devinfo", 1)
	srv := &DIServer[int]{Session: w, Vouchers: w,
		SignDeviceCertificate: func(*int) ([]*x509.Certificate, error) { return []*x509.Certificate{cert}, nil },
		DeviceInfo: func(context.Context, *int, []*x509.Certificate) (string, protocol.PublicKey, error) {
			return info, vwPublicKey(mk, mfgPub), nil
		},
		RvInfo: func(context.Context, *Voucher) ([][]protocol.RvInstruction, error) {
			return [][]protocol.RvInstruction{{{Variable: protocol.RVDns, Value: []byte{0x62, 0x72, 0x76}}}}, nil
		}}
	loop := &vRespLoop{resp: srv, sctx: w.TokenContext(context.Background(), "T1"), cutAt: verif.Choose("cutat", 3) - 1}
	cred, err := DI(context.Background(), loop, nil, DIConfig{HmacSha256: hmac.New(sha256.New, secret), HmacSha384: hmac.New(sha512.New384, secret), Key: dev})
	if loop.cutAt >= 0 && loop.cutAt < 2 {
		verif.Assert(err != nil && cred == nil, "a DI that fails yields no credential")
		if loop.cutAt == 0 {
			verif.Assert(w.count("AddVoucher") == 0, "and no voucher when the first message was lost")
		}
		verif.Reached("cut")
		return
	}
	verif.Assert(err == nil && cred != nil, "honest DI succeeds")
	verif.Assert(w.count("AddVoucher") == 1, "the manufacturer stored exactly one voucher")
	v, ok := w.store.vouchers[cred.GUID]
	verif.Assert(ok, "under the credential's GUID")
	vCheckAgreement(v, cred, secret, "after DI")
	verif.Reached("end")
}

// a storage fault (an error other than "not found") at any single session-state
// access of the owner service never leaves device and owner in disagreement
func VerifC03_StateFault() {
	verif.NoPanic()
	verif.SetGhost("clock-concrete", 1) // time plays no role here (error messages carry a timestamp)
	verif.Bound("C03 fault", "P-256; the k-th session-state access of the owner service during TO2 fails with a non-NotFound error, k = 1..60 (covers every access of a run) or none")
	t := vMkTO2World(vcP256, false)
	t.c.w.stCalls = 0
	t.c.w.faultAt = verif.Choose("faultat", 61)
	before := t.c.w.store.vouchers[t.c.guid]
	cred, err := TO2(context.Background(), t.loop, nil, t.cfg)
	if t.c.w.faultAt == 0 {
		verif.Assert(t.c.w.stCalls <= 60, "the fault positions cover every session-state access of a run")
	}
	if err == nil {
		verif.Assert(cred != nil, "a TO2 without credential reuse that succeeds returns a credential")
		nv, ok := t.c.w.store.vouchers[cred.GUID]
		verif.Assert(ok && t.c.w.count("ReplaceVoucher") == 1, "a returned credential has its replacement voucher stored by the owner")
		if ok {
			vCheckAgreement(nv, cred, t.secret, "after a run with a storage fault")
		}
		verif.Reached("succeeded")
	} else {
		verif.Assert(cred == nil, "a failed TO2 returns no credential")
		if !t.loop.doneAccepted {
			verif.Assert(t.c.w.count("ReplaceVoucher") == 0 && t.c.w.store.vouchers[t.c.guid] == before, "before the owner accepted Done its voucher store is unchanged")
		}
		verif.Reached("failed")
	}
}

// history of length 2: DI-style voucher -> TO2 -> the new owner extends (resells)
// the replacement voucher -> second TO2 with the credential returned by the first
func VerifC03_TwoHandovers() {
	verif.NoPanic()
	verif.SetGhost("clock-concrete", 1)
	verif.Bound("C03 k=2", "P-256/P-384; TO2, then ExtendVoucher of the stored replacement voucher to a second owner, then a second TO2 by the device with the credential returned by the first; both owners assign different / no rendezvous directives")
	kind := verif.Choose("kind", 2)
	vRvMode = []int{0, 2}[verif.Choose("rvmode", 2)]
	t := vMkTO2World(kind, false)
	cred1, err := TO2(context.Background(), t.loop, nil, t.cfg)
	vRvMode = 0
	verif.Assert(err == nil && cred1 != nil, "first TO2 succeeds")
	w := t.c.w
	v1, ok := w.store.vouchers[cred1.GUID]
	verif.Assert(ok, "replacement voucher stored")
	vCheckAgreement(v1, cred1, t.secret, "after the first TO2")
	// resale: the current owner extends the replacement voucher to a second owner
	owner2 := &verif.ModelSigner{Pub: vcPub(kind, "owner2")}
	v2, err := vwExtend(v1, t.c.owner, owner2.Pub)
	verif.Assert(err == nil, "the current owner can extend the replacement voucher (resale)")
	verif.Assert(v2.VerifyEntries() == nil, "the extended replacement voucher verifies")
	w.store.vouchers[cred1.GUID] = v2
	w.store.ownerKeys[v2.Header.Val.ManufacturerKey.Type] = owner2
	w.newSession("T2")
	srv2 := &TO2Server{Session: w, Modules: &vModules{w}, Vouchers: w, OwnerKeys: w,
		RvInfo: func(context.Context, Voucher) ([][]protocol.RvInstruction, error) {
			return [][]protocol.RvInstruction{{{Variable: protocol.RVDns, Value: []byte{0x61, 0x70}}}}, nil
		}}
	loop2 := &vLoop{srv: srv2, sctx: w.TokenContext(context.Background(), "T2"), cutAt: -1}
	cfg2 := t.cfg
	cfg2.Cred = *cred1
	cfg2.HmacSha256, cfg2.HmacSha384 = hmac.New(sha256.New, t.secret), hmac.New(sha512.New384, t.secret)
	cred2, err := TO2(context.Background(), loop2, nil, cfg2)
	verif.Assert(err == nil && cred2 != nil, "the device onboards again with the credential it was given")
	v3, ok := w.store.vouchers[cred2.GUID]
	verif.Assert(ok, "second replacement voucher stored")
	vCheckAgreement(v3, cred2, t.secret, "after the second TO2")
	verif.Reached("end")
}

// the device's HMAC engine (e.g. a TPM) faults at one of its digest finalisations:
// DI / TO2 either fail without a credential, or succeed with a stored voucher that
// verifies under the device secret
func VerifC03_FallibleHmac() {
	verif.NoPanic()
	verif.SetGhost("clock-concrete", 1)
	verif.Expect("succeeded")
	verif.Expect("failed")
	verif.Bound("C03 hmac fault", "P-256; DI or TO2 with a device HMAC engine whose k-th Sum (k = 1..3, or never) fails, latches an error and returns 0 or 32 arbitrary bytes")
	failAt := verif.Choose("failat", 4)
	glen := 32 * verif.Choose("garbage32", 2)
	secret := verif.Bytes("secret", 32)
	healthy := func() (h256, h384 hash.Hash) { return hmac.New(sha256.New, secret), hmac.New(sha512.New384, secret) }
	if verif.Choose("proto", 2) == 0 {
		dev := &verif.ModelSigner{Pub: vcPub(vcP256, "dev")}
		mfgPub := vcPub(vcP256, "mfg")
		w := newVWorld()
		w.newSession("T1")
		cert := verif.NewCert(dev.Pub, verif.Bytes("serial", 4))
		srv := &DIServer[int]{Session: w, Vouchers: w,
			SignDeviceCertificate: func(*int) ([]*x509.Certificate, error) { return []*x509.Certificate{cert}, nil },
			DeviceInfo: func(context.Context, *int, []*x509.Certificate) (string, protocol.PublicKey, error) {
				return "d", vwPublicKey(vcP256, mfgPub), nil
			},
			RvInfo: func(context.Context, *Voucher) ([][]protocol.RvInstruction, error) { return nil, nil }}
		loop := &vRespLoop{resp: srv, sctx: w.TokenContext(context.Background(), "T1"), cutAt: -1}
		eng := &vFallibleHmac{Hash: hmac.New(sha256.New, secret), failAt: failAt, garbageLen: glen}
		cred, err := DI(context.Background(), loop, nil, DIConfig{HmacSha256: eng, HmacSha384: hmac.New(sha512.New384, secret), Key: dev})
		if err != nil {
			verif.Assert(cred == nil, "a failed DI returns no credential")
			verif.Reached("failed")
			return
		}
		v, ok := w.store.vouchers[cred.GUID]
		verif.Assert(ok, "the manufacturer stored the voucher")
		h256, h384 := healthy()
		verif.Assert(v.VerifyHeader(h256, h384) == nil, "after a DI that succeeded the stored voucher's header MAC verifies under the device secret")
		verif.Reached("succeeded")
		return
	}
	t := vMkTO2World(vcP256, false)
	t.secret = secret
	// re-MAC the world's voucher under this secret
	ov := t.c.w.store.vouchers[t.c.guid]
	mac, err := hmacHash(hmac.New(sha256.New, secret), &ov.Header.Val)
	verif.Assert(err == nil, "harness: header MAC")
	ov.Hmac = mac
	// the first entry commits to header||MAC: rebuild the honest extension
	base := *ov
	base.Entries = nil
	mfg := &verif.ModelSigner{Pub: vwMust2(ov.Header.Val.ManufacturerKey.Public())}
	x, err := vwExtend(&base, mfg, t.c.owner.Public())
	verif.Assert(err == nil, "harness: re-extend")
	t.c.w.store.vouchers[t.c.guid] = x
	eng := &vFallibleHmac{Hash: hmac.New(sha256.New, secret), failAt: failAt, garbageLen: glen}
	t.cfg.HmacSha256, t.cfg.HmacSha384 = eng, hmac.New(sha512.New384, secret)
	cred, err := TO2(context.Background(), t.loop, nil, t.cfg)
	if err != nil {
		verif.Assert(cred == nil, "a failed TO2 returns no credential")
		verif.Reached("failed")
		return
	}
	nv, ok := t.c.w.store.vouchers[cred.GUID]
	verif.Assert(ok, "a returned credential has its replacement voucher stored")
	h256, h384 := healthy()
	verif.Assert(nv.VerifyHeader(h256, h384) == nil, "after a TO2 that succeeded the stored replacement voucher's header MAC verifies under the device secret")
	verif.Reached("succeeded")
}

func vwMust2(k crypto.PublicKey, err error) crypto.PublicKey {
	verif.Assert(err == nil, "harness: key parses")
	return k
}
