//go:build verif

package fdo

import (
	"hash"
	"errors"
	"crypto"
	"crypto/ecdsa"
	"crypto/hmac"
	"crypto/rsa"
	"crypto/sha256"
	"crypto/sha512"
	"crypto/x509"

	"github.com/fido-device-onboard/go-fdo/cbor"
	"github.com/fido-device-onboard/go-fdo/cose"
	"github.com/fido-device-onboard/go-fdo/internal/verif"
	"github.com/fido-device-onboard/go-fdo/protocol"
)

type ecdsaPub = ecdsa.PublicKey
type rsaPub = rsa.PublicKey

// ---------- reference encodings (independent of the code under test) ----------

func vwHead(maj byte, n int) []byte {
	switch {
	case n < 24:
		return []byte{maj<<5 | byte(n)}
	case n <= 0xff:
		return []byte{maj<<5 | 24, byte(n)}
	}
	return []byte{maj<<5 | 25, byte(n >> 8), byte(n)}
}
func vwBstr(b []byte) []byte { return append(vwHead(2, len(b)), b...) }

// Sig_structure = ["Signature1", bstr protected, bstr external (empty), bstr payload]
func vwSigStructure(protected, payload []byte) []byte {
	out := []byte{0x84, 0x6a}
	out = append(out, "Signature1"...)
	out = append(out, vwBstr(protected)...)
	out = append(out, 0x40)
	out = append(out, vwBstr(payload)...)
	return out
}

func vwProtected(alg int64) []byte {
	b, err := cbor.Marshal(alg)
	verif.Assert(err == nil, "harness: alg encodes")
	return append([]byte{0xa1, 0x01}, b...)
}

func vwMust(b []byte, err error) []byte {
	verif.Assert(err == nil, "harness: reference encoding")
	return b
}

// key kinds
func vwKeyType(kind int, pss bool) protocol.KeyType {
	switch kind {
	case vcP256:
		return protocol.Secp256r1KeyType
	case vcP384:
		return protocol.Secp384r1KeyType
	case vcRSA2048:
		if pss {
			return protocol.RsaPssKeyType
		}
		return protocol.Rsa2048RestrKeyType
	}
	if pss {
		return protocol.RsaPssKeyType
	}
	return protocol.RsaPkcsKeyType
}

func vwPublicKey(kind int, pub crypto.PublicKey) protocol.PublicKey {
	der := verif.KeyID(pub)
	return protocol.PublicKey{Type: vwKeyType(kind, false), Encoding: protocol.X509KeyEnc, Body: vwMust(cbor.Marshal(der))}
}

func vwHashOf(alg protocol.HashAlg, data []byte) []byte {
	if alg == protocol.Sha384Hash || alg == protocol.HmacSha384Hash {
		return verif.HashOf(crypto.SHA384, data)
	}
	return verif.HashOf(crypto.SHA256, data)
}

// scheme of a verification by key kind and alg (mirrors the ideal-signature model)
func vwScheme(kind int, alg int64) (string, crypto.Hash, bool) {
	var h crypto.Hash
	var fam string
	switch cose.SignatureAlgorithm(alg) {
	case cose.ES256Alg:
		h, fam = crypto.SHA256, "ecdsa"
	case cose.ES384Alg:
		h, fam = crypto.SHA384, "ecdsa"
	case cose.RS256Alg:
		h, fam = crypto.SHA256, "rsa-pkcs1-sha256"
	case cose.RS384Alg:
		h, fam = crypto.SHA384, "rsa-pkcs1-sha384"
	case cose.PS256Alg:
		h, fam = crypto.SHA256, "rsa-pss-sha256"
	case cose.PS384Alg:
		h, fam = crypto.SHA384, "rsa-pss-sha384"
	default:
		return "", 0, false
	}
	if kind == vcP256 || kind == vcP384 {
		return "ecdsa", h, true
	}
	if fam == "ecdsa" {
		return "", 0, false
	}
	return fam, h, true
}

// vwSpecSigned is the reference predicate "sig is the signature by key over the
// Sig_structure of (protected {1: alg}, payload)" - written from RFC 8152, independent
// of the repository's Sign1.Verify.
func vwSpecSigned(kind int, key crypto.PublicKey, alg int64, payloadEnc, sig []byte) bool {
	scheme, hh, ok := vwScheme(kind, alg)
	if !ok {
		return false
	}
	digest := verif.HashOf(hh, vwSigStructure(vwProtected(alg), payloadEnc))
	return verif.BytesEq(sig, verif.IdealSig(scheme, key, digest))
}

// vwSpecEntries asserts the reference predicate of an entry chain: every entry is
// signed by the previous owner key and carries H(GUID||DeviceInfo) and the hash of
// its predecessor (header||MAC for the first). Independent of VerifyEntries.
func vwSpecEntries(what string, h *vwHdr, mac protocol.Hmac, entries []vwEntry) {
	if len(entries) == 0 {
		return
	}
	hdrEnc := vwMust(cbor.Marshal(&h.hdr))
	alg0 := entries[0].tag.Payload.Val.PreviousHash.Algorithm
	verif.Assert(alg0 == protocol.Sha256Hash || alg0 == protocol.Sha384Hash, what+" => the chain uses SHA-256 or SHA-384")
	hdrInfo := append(append([]byte{}, h.guid[:]...), h.hdr.DeviceInfo...)
	macEnc := vwMust(cbor.Marshal(mac))
	prev := append(append([]byte{}, hdrEnc...), macEnc...)
	kind, key := h.mk, h.mfgPub
	for _, e := range entries {
		p := e.tag.Payload.Val
		payloadEnc := vwMust(cbor.Marshal(p))
		verif.Assert(vwSpecSigned(kind, key, e.alg, payloadEnc, e.sig), what+" => every entry is signed by the previous owner key over its protected header and payload")
		verif.Assert(p.HeaderHash.Algorithm == alg0, what+" => header hash algorithm is the chain's")
		verif.Assert(verif.BytesEq(p.HeaderHash.Value, vwHashOf(alg0, hdrInfo)), what+" => every entry's header hash = H(GUID || device info)")
		verif.Assert(verif.BytesEq(p.PreviousHash.Value, vwHashOf(alg0, prev)), what+" => every entry's previous hash = H(header || MAC) resp. H(previous entry)")
		prev = vwMust(cbor.Marshal(e.tag.Tag()))
		kind, key = e.nextKind, e.nextPub
	}
}

var vwAlgs = []int64{int64(cose.ES256Alg), int64(cose.ES384Alg), int64(cose.RS256Alg), int64(cose.PS256Alg), 0}
var vwOddAlgs = []protocol.HashAlg{protocol.Sha256Hash, protocol.Sha384Hash, protocol.HmacSha256Hash, protocol.HmacSha384Hash, 0, 1, -1, 99}
var vwHashAlgs = []protocol.HashAlg{protocol.Sha256Hash, protocol.Sha384Hash, protocol.HmacSha256Hash, 0}

type vwEntry struct {
	tag      cose.Sign1Tag[VoucherEntryPayload, []byte]
	alg      int64
	nextKind int
	nextPub  crypto.PublicKey
	sig      []byte
}

// a symbolic entry: every leaf arbitrary
func vwMkEntry(tag string, signerKind int, signer crypto.PublicKey) vwEntry {
	return vwMkEntryR(tag, signerKind, signer, false)
}

// reduced: algorithm ids fixed to the honest ones (values stay symbolic)
func vwMkEntryR(tag string, signerKind int, signer crypto.PublicKey, reduced bool) vwEntry {
	var e vwEntry
	var ph, hh protocol.HashAlg
	if reduced {
		e.alg = int64(cose.ES256Alg)
		if signerKind == vcP384 {
			e.alg = int64(cose.ES384Alg)
		}
		e.nextKind = signerKind
		ph, hh = protocol.Sha256Hash, protocol.Sha256Hash
	} else {
		e.alg = vwAlgs[verif.Choose("alg"+tag, len(vwAlgs))]
		e.nextKind = verif.Choose("nextkind"+tag, 2) // P-256 or P-384 next owner
		ph = vwHashAlgs[verif.Choose("prevalg"+tag, len(vwHashAlgs))]
		hh = vwHashAlgs[verif.Choose("hdralg"+tag, len(vwHashAlgs))]
	}
	e.nextPub = vcPub(e.nextKind, "next"+tag)
	hl := func(a protocol.HashAlg) int {
		if a == protocol.Sha384Hash {
			return 48
		}
		return 32
	}
	payload := VoucherEntryPayload{
		PreviousHash: protocol.Hash{Algorithm: ph, Value: verif.Bytes("prevhash"+tag, hl(ph))},
		HeaderHash:   protocol.Hash{Algorithm: hh, Value: verif.Bytes("hdrhash"+tag, hl(hh))},
		PublicKey:    vwPublicKey(e.nextKind, e.nextPub),
	}
	e.sig = verif.Bytes("sig"+tag, verif.SigLen(signer))
	e.tag.Protected = cose.HeaderMap{cose.AlgLabel: e.alg}
	e.tag.Unprotected = cose.HeaderMap{}
	e.tag.Payload = cbor.NewByteWrap(payload)
	e.tag.Signature = e.sig
	return e
}

// symbolic header part of a voucher
type vwHdr struct {
	v        Voucher
	hdr      VoucherHeader
	guid     protocol.GUID
	mk       int
	mfgPub   crypto.PublicKey
	hasChain bool
	chainDropped bool
	devCert  *x509.Certificate
	cch      protocol.Hash
}

func vwMkHeader(simple bool) *vwHdr {
	h := &vwHdr{}
	if g, ok := verif.Ghost("fix-mfgkind").(int); ok {
		h.mk = g
	} else if simple {
		h.mk = verif.Choose("mfgkind", 2)
	} else {
		h.mk = verif.Choose("mfgkind", 2+verif.Tier())
	}
	h.mfgPub = vcPub(h.mk, "mfg")
	h.v.Version = 101
	copy(h.guid[:], verif.Bytes("guid", 16))
	ninfo := 1
	if !simple {
		ninfo = verif.Choose("ndevinfo", 3)
	}
	h.hdr = VoucherHeader{Version: 101, GUID: h.guid, DeviceInfo: verif.String("devinfo", ninfo), ManufacturerKey: vwPublicKey(h.mk, h.mfgPub)}
	if !simple {
		h.hasChain = verif.Choose("haschain", 2) == 1
	}
	if h.hasChain {
		h.devCert = verif.NewCert(vcPub(vcP256, "dev"), verif.Bytes("serial", 4))
		chain := []*cbor.X509Certificate{(*cbor.X509Certificate)(h.devCert)}
		h.v.CertChain = &chain
		h.cch = protocol.Hash{Algorithm: vwHashAlgs[verif.Choose("cchalg", 2)], Value: verif.Bytes("cch", 32)}
		if h.cch.Algorithm == protocol.Sha384Hash {
			h.cch.Value = verif.Bytes("cch48", 48)
		}
		h.hdr.CertChainHash = &h.cch
	}
	h.v.Header = *cbor.NewBstr(h.hdr)
	macAlgs := []protocol.HashAlg{protocol.HmacSha256Hash, protocol.HmacSha384Hash, protocol.Sha256Hash}
	ma := protocol.HmacSha256Hash
	if !simple {
		ma = macAlgs[verif.Choose("macalg", 3)]
	}
	h.v.Hmac = protocol.Hmac{Algorithm: ma, Value: verif.Bytes("mac", 32)}
	if ma == protocol.HmacSha384Hash {
		h.v.Hmac.Value = verif.Bytes("mac48", 48)
	}
	if !simple {
		// a MAC value shorter than the digest (empty, truncated) must never be accepted
		switch verif.Choose("maclenmode", 3) {
		case 1:
			h.v.Hmac.Value = h.v.Hmac.Value[:0]
		case 2:
			h.v.Hmac.Value = h.v.Hmac.Value[:8]
		}
		// the certificate chain removed while the (MACed) header still carries its hash
		if h.hasChain && verif.Choose("dropchain", 2) == 1 {
			h.v.CertChain = nil
			h.chainDropped = true
		}
	}
	return h
}

// (a1) header verifiers: accept => header MAC, manufacturer key hash and device
// certificate hash are the authentic ones.
func VerifC04_HeaderAcceptSpec() {
	verif.Expect("header accepted")
	verif.Expect("mfg key accepted")
	verif.Expect("cert hash accepted")
	verif.Bound("C04a header", "manufacturer key kind in {P-256, P-384} (+RSA-2048 thorough), X509 encoding; device info 0..2 bytes; device certificate chain absent / 1 certificate with hash alg in {SHA-256, SHA-384}; header MAC alg in {HMAC-SHA256, HMAC-SHA384, other} with a value of full length, empty or 8 bytes; chain present, absent, or removed while its hash stays in the header; credential key-hash alg in {SHA-256, SHA-384}; all values symbolic")
	h := vwMkHeader(false)
	v := &h.v
	secret := verif.Bytes("secret", 32)
	keyHashAlg := vwHashAlgs[verif.Choose("keyhashalg", 2)]
	keyHash := protocol.Hash{Algorithm: keyHashAlg, Value: verif.Bytes("keyhash", 32)}
	if keyHashAlg == protocol.Sha384Hash {
		keyHash.Value = verif.Bytes("keyhash48", 48)
	}
	var e1, e2, e3 error
	panicked, _ := verif.Caught(func() {
		e1 = v.VerifyHeader(hmac.New(sha256.New, secret), hmac.New(sha512.New384, secret))
		e2 = v.VerifyManufacturerKey(keyHash)
		e3 = v.VerifyCertChainHash()
	})
	if panicked {
		verif.Reached("panicked")
		return
	}
	hdrEnc := vwMust(cbor.Marshal(&h.hdr))
	if e1 == nil {
		verif.Assert(v.Hmac.Algorithm == protocol.HmacSha256Hash || v.Hmac.Algorithm == protocol.HmacSha384Hash, "accepted header MAC uses an HMAC algorithm id")
		mh := crypto.SHA256
		if v.Hmac.Algorithm == protocol.HmacSha384Hash {
			mh = crypto.SHA384
		}
		verif.Assert(verif.BytesEq(v.Hmac.Value, verif.HmacOf(mh, secret, hdrEnc)), "VerifyHeader accepts => header MAC = HMAC(device secret, encoded header)")
		verif.Reached("header accepted")
	}
	if e2 == nil {
		mkEnc := vwMust(cbor.Marshal(&h.hdr.ManufacturerKey))
		verif.Assert(verif.BytesEq(keyHash.Value, vwHashOf(keyHash.Algorithm, mkEnc)), "VerifyManufacturerKey accepts => credential key hash = H(encoded manufacturer key)")
		verif.Reached("mfg key accepted")
	}
	if h.chainDropped {
		verif.Assert(e3 != nil, "a voucher whose certificate chain was removed while the header still carries its hash fails verification")
	}
	if e3 == nil && h.hasChain {
		verif.Assert(verif.BytesEq(h.cch.Value, vwHashOf(h.cch.Algorithm, h.devCert.Raw)), "VerifyCertChainHash accepts => header certificate hash = H(device certificate chain)")
		verif.Reached("cert hash accepted")
	}
	verif.Reached("end")
}

// (a2) entry chain: VerifyEntries accepts => every entry is signed by the previous
// owner over its protected header and payload, and carries the right header and
// previous hashes; the reported owner is the last extension's key.
func VerifC04_EntriesAcceptSpec() {
	verif.Expect("accepted")
	verif.Expect("rejected")
	verif.Bound("C04a entries", "manufacturer key kind in {P-256, P-384}; 0..1 (quick) / 0..2 (thorough) entries with P-256/P-384 next owners; for the last entry (earlier ones keep honest ids): signature alg in {ES256, ES384, RS256, PS256, unregistered}, previous-hash and header-hash alg ids in {SHA-256, SHA-384, HMAC-SHA256, 0}; all values symbolic")
	h := vwMkHeader(true)
	v := &h.v
	n := verif.Choose("nentries", 2+verif.Tier())
	var entries []vwEntry
	signerKind, signer := h.mk, h.mfgPub
	for i := 0; i < n; i++ {
		// the full algorithm-id grammar on the last entry; earlier entries (thorough) keep honest ids with symbolic values
		e := vwMkEntryR(string(rune('A'+i)), signerKind, signer, i < n-1)
		entries = append(entries, e)
		v.Entries = append(v.Entries, e.tag)
		signerKind, signer = e.nextKind, e.nextPub
	}
	var e4 error
	panicked, _ := verif.Caught(func() { e4 = v.VerifyEntries() })
	if panicked {
		verif.Reached("panicked")
		return
	}
	if e4 != nil {
		verif.Reached("rejected")
		return
	}
	verif.Reached("accepted")
	hdrEnc := vwMust(cbor.Marshal(&h.hdr))
	if n > 0 {
		alg0 := entries[0].tag.Payload.Val.PreviousHash.Algorithm
		verif.Assert(alg0 == protocol.Sha256Hash || alg0 == protocol.Sha384Hash, "accepted => the chain uses SHA-256 or SHA-384")
		hdrInfo := append(append([]byte{}, h.guid[:]...), h.hdr.DeviceInfo...)
		macEnc := vwMust(cbor.Marshal(v.Hmac))
		prev := append(append([]byte{}, hdrEnc...), macEnc...)
		kind, key := h.mk, h.mfgPub
		for _, e := range entries {
			p := e.tag.Payload.Val
			scheme, hh, ok := vwScheme(kind, e.alg)
			verif.Assert(ok, "accepted => entry signature algorithm is registered and fits the signer's key family")
			payloadEnc := vwMust(cbor.Marshal(p))
			digest := verif.HashOf(hh, vwSigStructure(vwProtected(e.alg), payloadEnc))
			verif.Assert(verif.BytesEq(e.sig, verif.IdealSig(scheme, key, digest)), "accepted => entry is signed by the previous owner key over its protected header and payload")
			verif.Assert(p.HeaderHash.Algorithm == alg0, "accepted => header hash algorithm is the chain's")
			verif.Assert(verif.BytesEq(p.HeaderHash.Value, vwHashOf(alg0, hdrInfo)), "accepted => entry header hash = H(GUID || device info)")
			verif.Assert(verif.BytesEq(p.PreviousHash.Value, vwHashOf(alg0, prev)), "accepted => entry previous hash = H(header || MAC) resp. H(previous entry)")
			prev = vwMust(cbor.Marshal(e.tag.Tag()))
			kind, key = e.nextKind, e.nextPub
		}
	}
	owner, err := v.OwnerPublicKey()
	verif.Assert(err == nil, "owner key parses")
	want := h.mfgPub
	if n > 0 {
		want = entries[n-1].nextPub
	}
	verif.Assert(verif.BytesEq(verif.KeyID(owner), verif.KeyID(want)), "the reported owner is the key of the last extension (manufacturer key when there is none)")
}

// (d) verification never panics on shape-bounded vouchers.
func VerifC04_VerifyTotalHeader() {
	verif.NoPanic()
	verif.Bound("C04d header", "certificate chain nil / empty / 1 certificate with hash absent or alg id in {SHA-256, SHA-384, HMAC ids, 0, 1, -1, 99}; header MAC alg id from the same set, MAC length 0/32; credential key-hash alg id from the same set")
	mk := verif.Choose("mfgkind", 2)
	mfgPub := vcPub(mk, "mfg")
	var v Voucher
	var guid protocol.GUID
	hdr := VoucherHeader{Version: 101, GUID: guid, DeviceInfo: "d", ManufacturerKey: vwPublicKey(mk, mfgPub)}
	switch verif.Choose("chainshape", 4) {
	case 1:
		chain := []*cbor.X509Certificate{}
		v.CertChain = &chain
		hdr.CertChainHash = &protocol.Hash{Algorithm: protocol.Sha256Hash, Value: verif.Bytes("cch", 32)}
	case 2:
		c := verif.NewCert(vcPub(vcP256, "dev"), verif.Bytes("serial", 4))
		chain := []*cbor.X509Certificate{(*cbor.X509Certificate)(c)}
		v.CertChain = &chain
		hdr.CertChainHash = &protocol.Hash{Algorithm: vwOddAlgs[verif.Choose("cchalg", len(vwOddAlgs))], Value: verif.Bytes("cch", 32)}
	case 3:
		c := verif.NewCert(vcPub(vcP256, "dev"), verif.Bytes("serial", 4))
		chain := []*cbor.X509Certificate{(*cbor.X509Certificate)(c)}
		v.CertChain = &chain
	}
	v.Header = *cbor.NewBstr(hdr)
	v.Hmac = protocol.Hmac{Algorithm: vwOddAlgs[verif.Choose("macalg", len(vwOddAlgs))], Value: verif.Bytes("mac", verif.Choose("maclen", 2)*32)}
	secret := verif.Bytes("secret", 32)
	_ = v.VerifyHeader(hmac.New(sha256.New, secret), hmac.New(sha512.New384, secret))
	_ = v.VerifyManufacturerKey(protocol.Hash{Algorithm: vwOddAlgs[verif.Choose("khalg", len(vwOddAlgs))], Value: verif.Bytes("kh", 32)})
	_ = v.VerifyCertChainHash()
	_, _ = v.DevicePublicKey()
	verif.Reached("end")
}

func VerifC04_VerifyTotalEntries() {
	verif.NoPanic()
	verif.Bound("C04d entries", "one entry: as C04a plus null payload, missing alg header")
	h := vwMkHeader(true)
	v := &h.v
	e := vwMkEntry("A", h.mk, h.mfgPub)
	switch verif.Choose("entryshape", 3) {
	case 1:
		e.tag.Payload = nil
	case 2:
		e.tag.Protected = cose.HeaderMap{}
	}
	v.Entries = append(v.Entries, e.tag)
	_ = v.VerifyEntries()
	_, _ = v.OwnerPublicKey()
	verif.Reached("end")
}

// a malformed manufacturer key makes verification fail, not panic
func VerifC04_BadManufacturerKey() {
	verif.NoPanic()
	verif.Bound("C04d mfg key", "manufacturer key with type = any uint8, encoding id 0..4, body of arbitrary 0..2 bytes or a byte string wrapping 0..2 arbitrary bytes")
	var v Voucher
	var guid protocol.GUID
	body := verif.Bytes("mbody", verif.Choose("nmbody", 3))
	if verif.Choose("wrapped", 2) == 1 {
		body = vwBstr(body)
	}
	hdr := VoucherHeader{Version: 101, GUID: guid, DeviceInfo: "d", ManufacturerKey: protocol.PublicKey{Type: protocol.KeyType(verif.U8("mtype")), Encoding: protocol.KeyEncoding(verif.Choose("menc", 5)), Body: body}}
	v.Header = *cbor.NewBstr(hdr)
	err := v.VerifyEntries()
	verif.Assert(err != nil, "a voucher whose manufacturer key does not parse is rejected")
	_, err = v.OwnerPublicKey()
	verif.Assert(err != nil, "no owner key is reported for an unparsable manufacturer key")
	verif.Reached("end")
}

// an honest voucher: header MACed by the device, n entries signed by the right keys
func vwHonestVoucher(mk int, mfgKey *verif.ModelSigner, n int, secret []byte) (*Voucher, []*verif.ModelSigner) {
	var dev *verif.ModelSigner
	return vwHonestVoucherDev(mk, mfgKey, n, secret, &dev)
}

func vwHonestVoucherDev(mk int, mfgKey *verif.ModelSigner, n int, secret []byte, devOut **verif.ModelSigner) (*Voucher, []*verif.ModelSigner) {
	var v Voucher
	v.Version = 101
	var guid protocol.GUID
	copy(guid[:], verif.Bytes("guid", 16))
	devPub := vcPub(mk, "dev")
	*devOut = &verif.ModelSigner{Pub: devPub}
	devCert := verif.NewCert(devPub, verif.Bytes("serial", 4))
	chain := []*cbor.X509Certificate{(*cbor.X509Certificate)(devCert)}
	v.CertChain = &chain
	hdr := VoucherHeader{Version: 101, GUID: guid, DeviceInfo: verif.String("devinfo", 1), ManufacturerKey: vwPublicKey(mk, mfgKey.Pub),
		RvInfo: [][]protocol.RvInstruction{{{Variable: protocol.RVDns, Value: []byte{0x62, 0x72, 0x76}}}}}
	halg, err := hashAlgFor(devPub, mfgKey.Pub)
	verif.Assert(err == nil, "hash strength")
	hdr.CertChainHash = &protocol.Hash{Algorithm: halg, Value: vwHashOf(halg, devCert.Raw)}
	v.Header = *cbor.NewBstr(hdr)
	mac, err := hmacHash(hmac.New(sha256.New, secret), &hdr)
	verif.Assert(err == nil, "device MACs the header")
	v.Hmac = mac
	owners := []*verif.ModelSigner{mfgKey}
	cur := &v
	for i := 0; i < n; i++ {
		next := &verif.ModelSigner{Pub: vcPub(mk, "owner"+string(rune('A'+i)))}
		x, err := vwExtend(cur, owners[len(owners)-1], next.Pub)
		verif.Assert(err == nil, "ExtendVoucher by the current owner to a next owner of the manufacturer key's kind succeeds")
		cur = x
		owners = append(owners, next)
	}
	return cur, owners
}

func vwExtend(v *Voucher, owner crypto.Signer, next crypto.PublicKey) (*Voucher, error) {
	switch k := next.(type) {
	case *ecdsaPub:
		return ExtendVoucher(v, owner, k, nil)
	case *rsaPub:
		return ExtendVoucher(v, owner, k, nil)
	}
	panic("vwExtend: key type")
}

func vwVerifyAll(v *Voucher, secret []byte) bool {
	if v.VerifyHeader(hmac.New(sha256.New, secret), hmac.New(sha512.New384, secret)) != nil {
		return false
	}
	if v.VerifyCertChainHash() != nil {
		return false
	}
	return v.VerifyEntries() == nil
}

// (f) a voucher created honestly and extended n times passes every verification
// step and reports the last extension's key as owner.
func VerifC04_HonestExtendVerifies() {
	verif.NoPanic()
	verif.Bound("C04f", "key kind in {P-256, P-384, RSA-2048, RSA-3072} (all parties of one kind); 0..1 (quick) / 0..2 (thorough) extensions")
	mk := verif.Choose("kind", vcKinds)
	mfg := &verif.ModelSigner{Pub: vcPub(mk, "mfg")}
	secret := verif.Bytes("secret", 32)
	n := verif.Choose("n", 2+verif.Tier())
	v, owners := vwHonestVoucher(mk, mfg, n, secret)
	verif.Assert(vwVerifyAll(v, secret), "an honestly created and extended voucher passes every verification step")
	owner, err := v.OwnerPublicKey()
	verif.Assert(err == nil, "owner key parses")
	verif.Assert(verif.BytesEq(verif.KeyID(owner), verif.KeyID(owners[len(owners)-1].Pub)), "the reported owner is the key of the last extension")
	// storage re-encoding keeps it valid
	wire, err := cbor.Marshal(v)
	verif.Assert(err == nil, "voucher encodes")
	var back Voucher
	verif.Assert(cbor.Unmarshal(wire, &back) == nil, "voucher decodes")
	verif.Assert(vwVerifyAll(&back, secret), "the voucher still verifies after encode/decode")
	verif.Reached("end")
}

// (e) ExtendVoucher succeeds only for the current owner's key and only to a next
// owner of the manufacturer key's type and size.
func VerifC04_ExtendGuard() {
	verif.NoPanic()
	verif.Bound("C04e", "manufacturer/current owner kind x signer kind x next owner kind in {P-256, P-384, RSA-2048, RSA-3072}^3; signer key either the current owner's or an arbitrary other key of its kind")
	mk := verif.Choose("kind", vcKinds)
	mfg := &verif.ModelSigner{Pub: vcPub(mk, "mfg")}
	secret := verif.Bytes("secret", 32)
	v, _ := vwHonestVoucher(mk, mfg, 0, secret)
	sk := verif.Choose("signerkind", vcKinds)
	signer := mfg
	isOwner := verif.Choose("signer_is_owner", 2) == 1
	if !isOwner || sk != mk {
		signer = &verif.ModelSigner{Pub: vcPub(sk, "stranger")}
	}
	nk := verif.Choose("nextkind", vcKinds)
	next := vcPub(nk, "next")
	x, err := vwExtend(v, signer, next)
	if err == nil {
		verif.Assert(verif.BytesEq(verif.KeyID(signer.Pub), verif.KeyID(mfg.Pub)), "extension succeeds only with the private key matching the current owner key")
		verif.Assert(nk == mk, "extension succeeds only to a next-owner key of the manufacturer key's type and size")
		verif.Assert(vwVerifyAll(x, secret), "a successful extension verifies")
		o, err := x.OwnerPublicKey()
		verif.Assert(err == nil && verif.BytesEq(verif.KeyID(o), verif.KeyID(next)), "after extension the next owner is reported as owner")
	}
	verif.Reached("end")
}

// (e') the next owner given as a certificate chain: the key that counts is the
// leaf's (the key that becomes owner), whatever the issuing certificates use.
func VerifC04_ExtendGuardChain() {
	verif.NoPanic()
	verif.Expect("extended")
	verif.Bound("C04e chain", "manufacturer/current owner kind x leaf kind x issuer kind in {P-256, P-384, RSA-2048, RSA-3072}^3; next owner passed as an X.509 chain [leaf, issuer] or [leaf]; extension by the current owner")
	mk := verif.Choose("kind", vcKinds)
	mfg := &verif.ModelSigner{Pub: vcPub(mk, "mfg")}
	secret := verif.Bytes("secret", 32)
	v, _ := vwHonestVoucher(mk, mfg, 0, secret)
	lk := verif.Choose("leafkind", vcKinds)
	leaf := vcPub(lk, "leaf")
	chain := []*x509.Certificate{verif.NewCert(leaf, verif.Bytes("lserial", 4))}
	if verif.Choose("withissuer", 2) == 1 {
		ck := verif.Choose("issuerkind", vcKinds)
		chain = append(chain, verif.NewCert(vcPub(ck, "issuer"), verif.Bytes("iserial", 4)))
	}
	x, err := ExtendVoucher(v, mfg, chain, nil)
	if err == nil {
		verif.Assert(lk == mk, "extension to a certificate chain succeeds only if the leaf key has the manufacturer key's type and size")
		verif.Assert(x.VerifyEntries() == nil, "a successful extension verifies")
		o, err := x.OwnerPublicKey()
		verif.Assert(err == nil && verif.BytesEq(verif.KeyID(o), verif.KeyID(leaf)), "after extension the leaf key is reported as owner")
		verif.Reached("extended")
	}
	verif.Reached("end")
}

// (c) reorder / splice: swapping the two entries of an honest chain, or taking an
// entry from another voucher (different GUID) is rejected.
func VerifC04_SpliceReorder() {
	verif.NoPanic()
	verif.Bound("C04c", "P-256; honest voucher with 2 extensions: entries swapped, entry duplicated, last entry dropped then re-appended to a voucher with a different GUID, header MAC of the other voucher")
	mk := vcP256
	mfg := &verif.ModelSigner{Pub: vcPub(mk, "mfg")}
	secret := verif.Bytes("secret", 32)
	v, _ := vwHonestVoucher(mk, mfg, 2, secret)
	verif.Assert(vwVerifyAll(v, secret), "baseline verifies")
	t := *v
	switch verif.Choose("tamper", 4) {
	case 0: // swap
		t.Entries = []cose.Sign1Tag[VoucherEntryPayload, []byte]{v.Entries[1], v.Entries[0]}
	case 1: // duplicate
		t.Entries = []cose.Sign1Tag[VoucherEntryPayload, []byte]{v.Entries[0], v.Entries[0]}
	case 2: // drop first
		t.Entries = []cose.Sign1Tag[VoucherEntryPayload, []byte]{v.Entries[1]}
	case 3: // other header (different device info), same entries
		h := v.Header.Val
		h.DeviceInfo = verif.String("otherinfo", 1)
		verif.Assume(h.DeviceInfo != v.Header.Val.DeviceInfo)
		t.Header = *cbor.NewBstr(h)
		mac, err := hmacHash(hmac.New(sha256.New, secret), &h)
		verif.Assert(err == nil, "mac")
		t.Hmac = mac
	}
	verif.Assert(!vwVerifyAll(&t, secret), "reordered, duplicated, truncated-at-front or spliced entries are rejected")
	verif.Reached("end")
}

// vFallibleHmac wraps a device HMAC the way a hardware engine behaves: one of its
// operations can fail; the failure is latched and reported by Err(), and the
// failing Sum returns garbage.
type vFallibleHmac struct {
	hash.Hash
	ops, failAt int // the failAt-th call of Sum fails (0 = never)
	err         error
	garbageLen  int
}

func (f *vFallibleHmac) Sum(b []byte) []byte {
	f.ops++
	if f.ops == f.failAt {
		f.err = errors.New("harness: hmac engine fault")
		return append(b, verif.Bytes("garbage", f.garbageLen)...)
	}
	return f.Hash.Sum(b)
}
func (f *vFallibleHmac) Err() error { return f.err }

// a header check backed by an HMAC engine that may fault still accepts only
// vouchers MACed with the device secret
func VerifC04_HeaderFallibleHmac() {
	verif.Expect("accepted")
	verif.Expect("rejected")
	verif.Bound("C04a fallible hmac", "as C04a header with HMAC-SHA256; the device's HMAC engine faults at its 1st Sum or never; a faulting Sum returns 0 or 32 arbitrary bytes; header MAC value arbitrary of length 0 or 32")
	h := vwMkHeader(true)
	if verif.Choose("shortmac", 2) == 1 {
		h.v.Hmac.Value = h.v.Hmac.Value[:0]
	}
	secret := verif.Bytes("secret", 32)
	eng := &vFallibleHmac{Hash: hmac.New(sha256.New, secret), failAt: verif.Choose("failat", 2), garbageLen: 32 * verif.Choose("garbage32", 2)}
	err := h.v.VerifyHeader(eng, hmac.New(sha512.New384, secret))
	if err != nil {
		verif.Reached("rejected")
		return
	}
	verif.Reached("accepted")
	hdrEnc := vwMust(cbor.Marshal(&h.hdr))
	verif.Assert(verif.BytesEq(h.v.Hmac.Value, verif.HmacOf(crypto.SHA256, secret, hdrEnc)), "VerifyHeader accepts => header MAC = HMAC(device secret, encoded header), also when the HMAC engine can fault")
	verif.Assert(eng.err == nil, "a verdict is never based on a faulted HMAC computation")
}

// an owner (or manufacturer) key given as an X.509 chain is the LEAF certificate's
// key - the key whose holder is the owner - whatever the issuing certificates carry
func VerifC04_X5ChainKeyIsLeaf() {
	verif.NoPanic()
	verif.Bound("C04 x5chain", "public key encoded as X5CHAIN of 1..3 certificates; leaf and issuers of kinds {P-256, P-384, RSA-2048, RSA-3072} with distinct symbolic keys; through encode/decode")
	lk := verif.Choose("leafkind", vcKinds)
	leaf := vcPub(lk, "leaf")
	chain := []*x509.Certificate{verif.NewCert(leaf, verif.Bytes("lserial", 4))}
	for i, n := 0, verif.Choose("issuers", 3); i < n; i++ {
		ik := verif.Choose("issuerkind"+string(rune('A'+i)), vcKinds)
		chain = append(chain, verif.NewCert(vcPub(ik, "issuer"+string(rune('A'+i))), verif.Bytes("iserial"+string(rune('A'+i)), 4)))
	}
	pk, err := protocol.NewPublicKey(vwKeyType(lk, false), chain, false)
	verif.Assert(err == nil, "X5CHAIN public key builds")
	enc, err := cbor.Marshal(pk)
	verif.Assert(err == nil, "encodes")
	var back protocol.PublicKey
	verif.Assert(cbor.Unmarshal(enc, &back) == nil, "decodes")
	got, err := back.Public()
	verif.Assert(err == nil, "the key parses")
	verif.Assert(verif.BytesEq(verif.KeyID(got), verif.KeyID(leaf)), "the key of an X5CHAIN public key is its leaf certificate's key")
	verif.Reached("end")
}
