//go:build verif

package fdo

import (
	"bytes"
	"errors"
	"io"
	nethttp "net/http"
	"net/url"
	"strconv"

	"github.com/fido-device-onboard/go-fdo/internal/verif"
	"github.com/fido-device-onboard/go-fdo/kex"
)

// vTamperSess is a keyed session whose Decrypt verdict for the incoming message
// is given (the real crypter's verdict is C05's kex harnesses' subject); it counts
// what passes through Decrypt and Encrypt.
type vTamperSess struct {
	*vSess
	accept             *bool
	decCalls, encCalls *int
}

func (s vTamperSess) Decrypt(_ io.Reader, body io.Reader) ([]byte, error) {
	*s.decCalls++
	if !*s.accept {
		return nil, errors.New("harness: authentication failed")
	}
	return io.ReadAll(body)
}
func (s vTamperSess) Encrypt(_ io.Reader, payload any) (any, error) {
	*s.encCalls++
	return payload, nil
}

// (g) at the owner's HTTP handler every TO2 message after ProveDevice goes through
// the session crypter in both directions, and a message the crypter rejects fails
// the run: error answer, no effect, and the token no longer grants access.
func VerifC05_HandlerRejectFailsRun() {
	verif.NoPanic()
	verif.Bound("C05g", "owner HTTP handler; session after ProveDevice / after 66 / after 68 (tunnel keys present); one request of type 66, 68 or 70 carrying the session token whose body the session crypter accepts or rejects; then a second, well-formed request with the same token")
	verif.SetGhost("clock-concrete", 1)
	c := vC08Setup()
	w := c.w
	profile := []int{pTO2Proved, pTO2Ready, pTO2Info}[verif.Choose("profile", 3)]
	s := w.newSession("TA")
	c.fill(s, profile, "A")
	accept := verif.Choose("crypter_accepts", 2) == 1
	dec, enc := 0, 0
	s.xSess = vTamperSess{vSess: unwrapSess(s.xSess).(*vSess), accept: &accept, decCalls: &dec, encCalls: &enc}
	var _ kex.Session = s.xSess
	msgType := []int{66, 68, 70}[verif.Choose("msgtype", 3)]
	send := func(mt int) (int, *vRecorder) {
		hdr := nethttp.Header{}
		hdr.Set("Authorization", "Bearer TA")
		body := c.body(mt, w.sessions["TA"])
		req := &nethttp.Request{Method: "POST", URL: &url.URL{Path: "/fdo/101/msg/" + strconv.Itoa(mt)}, Header: hdr,
			Body: io.NopCloser(bytes.NewReader(body)), ContentLength: int64(len(body))}
		rec := &vRecorder{hdr: nethttp.Header{}}
		c.h.ServeHTTP(rec, req)
		rt, _ := strconv.Atoi(rec.hdr.Get("Message-Type"))
		return rt, rec
	}
	effects := func() int {
		return w.count("ReplaceVoucher") + w.count("HandleInfo") + w.count("ProduceInfo")
	}
	rt, _ := send(msgType)
	verif.Assert(dec == 1, "every TO2 message after ProveDevice is passed through the session's Decrypt")
	if !accept {
		verif.Assert(rt == 255, "a message the session crypter rejects is answered with an error message")
		verif.Assert(effects() == 0, "a rejected message has no effect")
		verif.Assert(enc == 0, "nothing is sent under the tunnel in reply to a rejected message")
		verif.Assert(w.invalidated("TA"), "a rejected message fails the run: the session token is invalidated")
		// the same token afterwards: nothing but an error
		accept = true
		rt2, _ := send(msgType)
		verif.Assert(rt2 == 255 && effects() == 0, "after a rejected message the token grants nothing")
		verif.Reached("rejected")
		return
	}
	if rt != 255 {
		verif.Assert(enc == 1, "every TO2 response after ProveDevice is passed through the session's Encrypt")
	}
	verif.Reached("accepted")
}
