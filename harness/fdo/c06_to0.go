//go:build verif

package fdo

import (
	"bytes"
	"context"
	"errors"
	"time"

	"github.com/fido-device-onboard/go-fdo/cbor"
	"github.com/fido-device-onboard/go-fdo/cose"
	"github.com/fido-device-onboard/go-fdo/internal/verif"
	"github.com/fido-device-onboard/go-fdo/protocol"
)

var vTTLs = []uint32{0, 3600, 4294967295, 1}

func vNTTL() int { return 3 + verif.Tier() }

// TO0.OwnerSign against the real rendezvous responder: a redirect is stored only
// for a verified chain, matching to0d hash, the session's nonce and a blob signed
// by the voucher's current owner; expiry and reply carry the accepted TTL.
func VerifC06_AcceptOwnerSpec_P256() { verif.SetGhost("fix-mfgkind", vcP256); vAcceptOwnerSpec(false) }
func VerifC06_AcceptOwnerSpec_P384() { verif.SetGhost("fix-mfgkind", vcP384); vAcceptOwnerSpec(false) }

// C10: the same message grammar must never crash the rendezvous responder
func VerifC10_TO0OwnerSign() { verif.SetGhost("fix-mfgkind", vcP256); vAcceptOwnerSpec(true) }

func vAcceptOwnerSpec(nopanic bool) {
	verif.Expect("stored")
	verif.Expect("rejected")
	verif.Bound("C06", "voucher: P-256/P-384 manufacturer key, 0..1 (quick) / 0..2 (thorough) entries with symbolic hashes, keys and signatures (algorithm ids honest; the id space is C04's); to0d nonce and session nonce symbolic, session nonce present/absent; to1d: hash alg in {SHA-256, SHA-384, 0}, value symbolic, 1 address, protected alg in {ES256, ES384, unregistered}, signature symbolic of the owner key's length, payload present/null; requested TTL in {0,3600,2^32-1} (+1 thorough); policy callback absent / returns one of those TTLs or an error; frozen symbolic clock")
	verif.SetGhost("clock-frozen", 1)
	h := vwMkHeader(true)
	ov := h.v
	n := verif.Choose("nentries", 2+verif.Tier())
	signerKind, signer := h.mk, h.mfgPub
	var vents []vwEntry
	for i := 0; i < n; i++ {
		e := vwMkEntryR(string(rune('A'+i)), signerKind, signer, true)
		vents = append(vents, e)
		ov.Entries = append(ov.Entries, e.tag)
		signerKind, signer = e.nextKind, e.nextPub
	}
	ownerKind, ownerPub := signerKind, signer

	var nonce, sessNonce protocol.Nonce
	copy(nonce[:], verif.Bytes("nonce", 16))
	copy(sessNonce[:], verif.Bytes("sessnonce", 16))
	reqTTL := vTTLs[verif.Choose("reqttl", vNTTL())]
	t0 := to0d{Voucher: ov, WaitSeconds: reqTTL, NonceTO0Sign: nonce}

	hashAlgs := []protocol.HashAlg{protocol.Sha256Hash, protocol.Sha384Hash, 0}
	ha := hashAlgs[verif.Choose("to0dhashalg", 3)]
	hv := verif.Bytes("to0dhash", 32)
	if ha == protocol.Sha384Hash {
		hv = verif.Bytes("to0dhash48", 48)
	}
	dns := "o"
	blob := protocol.To1d{RV: []protocol.RvTO2Addr{{DNSAddress: &dns, Port: 8080, TransportProtocol: protocol.HTTPTransport}}, To0dHash: protocol.Hash{Algorithm: ha, Value: hv}}
	var to1d cose.Sign1Tag[protocol.To1d, []byte]
	sigAlgs := []int64{int64(cose.ES256Alg), int64(cose.ES384Alg), 0}
	sigAlg := sigAlgs[verif.Choose("to1dalg", 3)]
	to1d.Protected = cose.HeaderMap{cose.AlgLabel: sigAlg}
	to1d.Unprotected = cose.HeaderMap{}
	payloadPresent := verif.Choose("to1dpayload", 2) == 1
	if payloadPresent {
		to1d.Payload = cbor.NewByteWrap(blob)
	}
	to1d.Signature = verif.Bytes("to1dsig", verif.SigLen(ownerPub))
	wire, err := cbor.Marshal(ownerSign{To0d: *cbor.NewBstr(t0), To1d: to1d})
	verif.Assert(err == nil, "harness: OwnerSign encodes")

	st := newVState()
	if verif.Choose("hassessnonce", 2) == 1 {
		st.to0Nonce = &sessNonce
	}
	srv := &TO0Server{Session: st, RVBlobs: st}
	cbMode := verif.Choose("policy", 3)
	var cbTTL uint32
	switch cbMode {
	case 1:
		cbTTL = vTTLs[verif.Choose("cbttl", vNTTL())]
		srv.AcceptVoucher = func(context.Context, Voucher, uint32) (uint32, error) { return cbTTL, nil }
	case 2:
		srv.AcceptVoucher = func(context.Context, Voucher, uint32) (uint32, error) { return 0, errors.New("policy: no") }
	}
	now := time.Now()

	var rt uint8
	var resp any
	panicked := vRun(nopanic, func() { rt, resp = srv.Respond(context.Background(), protocol.TO0OwnerSignMsgType, bytes.NewReader(wire)) })
	if panicked {
		verif.Assert(st.setRVBlobCalls == 0, "a crashing request stores nothing")
		verif.Reached("panicked")
		return
	}
	if st.setRVBlobCalls == 0 {
		verif.Assert(rt == protocol.ErrorMsgType, "without a stored redirect the answer is an error message")
		verif.Reached("rejected")
		return
	}
	verif.Reached("stored")
	verif.Assert(rt == protocol.TO0AcceptOwnerMsgType, "a stored redirect is answered with TO0.AcceptOwner")
	verif.Assert(st.setRVBlobCalls == 1, "one store per request")
	b := st.lastBlob
	verif.Assert(len(b.ov.Entries) >= 1, "stored => the voucher has at least one entry")
	verif.Assert(b.ov.VerifyEntries() == nil, "stored => the voucher's entry chain verifies")
	vwSpecEntries("stored", h, h.v.Hmac, vents)
	verif.Assert(st.to0Nonce != nil && nonce == sessNonce, "stored => to0d carries the nonce issued in this session")
	verif.Assert(payloadPresent, "stored => the blob has a payload")
	t0enc, err := cbor.Marshal(t0)
	verif.Assert(err == nil, "harness: to0d encodes")
	verif.Assert(ha == protocol.Sha256Hash || ha == protocol.Sha384Hash, "stored => the blob's to0d hash uses SHA-256 or SHA-384")
	verif.Assert(verif.BytesEq(hv, vwHashOf(ha, t0enc)), "stored => hash inside the blob = H(to0d)")
	// the central conjunct: the blob is signed by the voucher's CURRENT owner key
	ok, verr := b.to1d.Verify(ownerPub, nil, nil)
	verif.Assert(verr == nil && ok, "stored => the redirect blob is signed with the voucher's current owner key")
	verif.Assert(vwSpecSigned(ownerKind, ownerPub, sigAlg, vwMust(cbor.Marshal(blob)), to1d.Signature), "stored => the redirect blob's signature is the current owner key's signature over its protected header and payload (reference predicate)")
	// TTL policy
	ttl := reqTTL
	if cbMode == 1 {
		ttl = cbTTL
		verif.Assert(cbTTL != 0, "a zero TTL from the policy callback rejects the request")
	}
	verif.Assert(cbMode != 2, "a policy error rejects the request")
	verif.Assert(b.exp.Equal(now.Add(time.Duration(ttl)*time.Second)), "stored expiry = now + accepted TTL")
	acc, isAcc := resp.(*to0AcceptOwner)
	verif.Assert(isAcc && acc.WaitSeconds == ttl, "the reply reports the accepted TTL")
}

// honest registration is accepted
func VerifC06_HonestAccepted() {
	verif.NoPanic()
	verif.Bound("C06 honest", "key kind in {P-256, P-384, RSA-2048}, 1..2 extensions, honest TO0.OwnerSign built by the real client code path (ownerSign structures), no policy callback")
	verif.SetGhost("clock-frozen", 1)
	mk := verif.Choose("kind", 3)
	mfg := &verif.ModelSigner{Pub: vcPub(mk, "mfg")}
	secret := verif.Bytes("secret", 32)
	n := 1 + verif.Choose("n", 1+verif.Tier())
	ov, owners := vwHonestVoucher(mk, mfg, n, secret)
	owner := owners[len(owners)-1]
	var nonce protocol.Nonce
	copy(nonce[:], verif.Bytes("nonce", 16))
	t0 := to0d{Voucher: *ov, WaitSeconds: 3600, NonceTO0Sign: nonce}
	alg := ov.Entries[0].Payload.Val.PreviousHash.Algorithm
	t0enc, err := cbor.Marshal(t0)
	verif.Assert(err == nil, "to0d encodes")
	dns := "o"
	to1d := cose.Sign1[protocol.To1d, []byte]{Payload: cbor.NewByteWrap(protocol.To1d{
		RV:       []protocol.RvTO2Addr{{DNSAddress: &dns, Port: 8080, TransportProtocol: protocol.HTTPTransport}},
		To0dHash: protocol.Hash{Algorithm: alg, Value: vwHashOf(alg, t0enc)},
	})}
	opts, err := signOptsFor(owner, false)
	verif.Assert(err == nil, "sign opts")
	verif.Assert(to1d.Sign(owner, nil, nil, opts) == nil, "owner signs the blob")
	wire, err := cbor.Marshal(ownerSign{To0d: *cbor.NewBstr(t0), To1d: *to1d.Tag()})
	verif.Assert(err == nil, "OwnerSign encodes")
	st := newVState()
	st.to0Nonce = &nonce
	srv := &TO0Server{Session: st, RVBlobs: st}
	rt, _ := srv.Respond(context.Background(), protocol.TO0OwnerSignMsgType, bytes.NewReader(wire))
	verif.Assert(rt == protocol.TO0AcceptOwnerMsgType, "an honest registration by the current owner is accepted")
	verif.Assert(st.setRVBlobCalls == 1, "and stored once")
	verif.Reached("end")
}
