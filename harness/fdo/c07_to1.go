//go:build verif

package fdo

import (
	"bytes"
	"context"
	"net"
	"time"

	"github.com/fido-device-onboard/go-fdo/cbor"
	"github.com/fido-device-onboard/go-fdo/cose"
	"github.com/fido-device-onboard/go-fdo/internal/verif"
	"github.com/fido-device-onboard/go-fdo/protocol"
)

// a registered redirect for a GUID whose voucher names devPub as device key
func vRegister(st *vState, tag string, kind int) (protocol.GUID, *verif.ModelSigner, *cose.Sign1[protocol.To1d, []byte]) {
	var guid protocol.GUID
	copy(guid[:], verif.Bytes("guid"+tag, 16))
	dev := &verif.ModelSigner{Pub: vcPub(kind, "dev"+tag)}
	cert := verif.NewCert(dev.Pub, verif.Bytes("serial"+tag, 4))
	chain := []*cbor.X509Certificate{(*cbor.X509Certificate)(cert)}
	ov := &Voucher{Version: 101, CertChain: &chain}
	ov.Header = *cbor.NewBstr(VoucherHeader{Version: 101, GUID: guid, DeviceInfo: "d"})
	dns := "o" + tag
	blob := &cose.Sign1[protocol.To1d, []byte]{Payload: cbor.NewByteWrap(protocol.To1d{
		RV:       []protocol.RvTO2Addr{{DNSAddress: &dns, Port: 8080, TransportProtocol: protocol.HTTPTransport}},
		To0dHash: protocol.Hash{Algorithm: protocol.Sha256Hash, Value: verif.Bytes("to0dhash"+tag, 32)},
	})}
	blob.Protected = cose.HeaderMap{cose.AlgLabel: int64(cose.ES256Alg)}
	blob.Unprotected = cose.HeaderMap{}
	blob.Signature = verif.Bytes("blobsig"+tag, 64)
	st.blobs[guid] = &vBlob{ov: ov, to1d: blob, exp: time.Time{}}
	return guid, dev, blob
}

// TO1.ProveToRV against the real responder: the redirect is released only to a
// token signed by the device key of the voucher registered for the claimed GUID,
// carrying this session's nonce; the released blob is the stored one.
func VerifC07_RvRedirectSpec() { vRvRedirectSpec(false) }

// C10: the same token grammar must never crash the rendezvous responder
func VerifC10_TO1ProveToRV() { vRvRedirectSpec(true) }

func vRvRedirectSpec(nopanic bool) {
	verif.Expect("released")
	verif.Expect("rejected")
	verif.Bound("C07", "two registered GUIDs (symbolic, distinct) with P-256 device keys, the first voucher with or without its device certificate chain; session nonce present/absent; EAT: payload present/null, nonce claim absent / 16 symbolic bytes / 15 bytes / integer, UEID claim absent / symbolic bytes of length {0,16,17,18} / integer, protected alg in {ES256, ES384, unregistered}, signature 64 symbolic bytes")
	st := newVState()
	g0, dev0, blob0 := vRegister(st, "0", vcP256)
	g1, dev1, blob1 := vRegister(st, "1", vcP256)
	verif.Assume(g0 != g1)
	// a registration whose voucher carries no device certificate chain names no device key: nobody can be proven
	noChain0 := verif.Choose("nochain0", 2) == 1
	if noChain0 {
		st.blobs[g0].ov.CertChain = nil
	}
	var sessNonce protocol.Nonce
	copy(sessNonce[:], verif.Bytes("sessnonce", 16))
	if verif.Choose("hassessnonce", 2) == 1 {
		st.to1Nonce = &sessNonce
	}
	eat := eatoken{}
	var nonceClaim []byte
	switch verif.Choose("nonceclaim", 4) {
	case 1:
		nonceClaim = verif.Bytes("nonce", 16)
		eat[eatNonceClaim] = nonceClaim
	case 2:
		nonceClaim = verif.Bytes("nonce15", 15)
		eat[eatNonceClaim] = nonceClaim
	case 3:
		eat[eatNonceClaim] = int64(7)
	}
	var ueid []byte
	switch verif.Choose("ueidclaim", 6) {
	case 1:
		ueid = verif.Bytes("ueid", 17)
		eat[eatUeidClaim] = ueid
	case 2:
		ueid = verif.Bytes("ueid16", 16)
		eat[eatUeidClaim] = ueid
	case 3:
		ueid = verif.Bytes("ueid18", 18)
		eat[eatUeidClaim] = ueid
	case 4:
		ueid = []byte{}
		eat[eatUeidClaim] = ueid
	case 5:
		eat[eatUeidClaim] = int64(1)
	}
	var token cose.Sign1Tag[eatoken, []byte]
	algs := []int64{int64(cose.ES256Alg), int64(cose.ES384Alg), 0}
	tokAlg := algs[verif.Choose("alg", 3)]
	token.Protected = cose.HeaderMap{cose.AlgLabel: tokAlg}
	token.Unprotected = cose.HeaderMap{}
	payloadPresent := verif.Choose("payload", 2) == 1
	if payloadPresent {
		token.Payload = cbor.NewByteWrap(eat)
	}
	token.Signature = verif.Bytes("sig", 64)
	wire, err := cbor.Marshal(token)
	verif.Assert(err == nil, "harness: token encodes")

	srv := &TO1Server{Session: st, RVBlobs: st}
	var rt uint8
	var resp any
	panicked := vRun(nopanic, func() { rt, resp = srv.Respond(context.Background(), protocol.TO1ProveToRVMsgType, bytes.NewReader(wire)) })
	if panicked {
		verif.Reached("panicked")
		return
	}
	if rt != protocol.TO1RVRedirectMsgType {
		verif.Assert(rt == protocol.ErrorMsgType, "anything but a redirect is an error message")
		verif.Reached("rejected")
		return
	}
	verif.Reached("released")
	verif.Assert(payloadPresent, "released => the token has a payload")
	verif.Assert(st.to1Nonce != nil && len(nonceClaim) == 16 && verif.BytesEq(nonceClaim, sessNonce[:]), "released => the token carries the nonce issued in this session")
	verif.Assert(len(ueid) == 17 && ueid[0] == 1, "released => UEID is 01 || GUID")
	var claimed protocol.GUID
	copy(claimed[:], ueid[1:])
	verif.Assert(claimed == g0 || claimed == g1, "released => the claimed GUID is registered")
	dev, want := dev0, blob0
	if claimed == g1 {
		dev, want = dev1, blob1
	} else {
		verif.Assert(!noChain0, "released => the registered voucher has a device certificate whose key the requester proved")
	}
	var untagged cose.Sign1[eatoken, []byte] = token.Sign1
	ok, verr := untagged.Verify(dev.Pub, nil, nil)
	verif.Assert(verr == nil && ok, "released => the token is signed with the device key of the voucher registered for the claimed GUID")
	verif.Assert(vwSpecSigned(vcP256, dev.Pub, tokAlg, vwMust(cbor.Marshal(eat)), token.Signature), "released => the token's signature is that device key's over its protected header and payload (reference predicate)")
	got, isTag := resp.(*cose.Sign1Tag[protocol.To1d, []byte])
	verif.Assert(isTag, "a redirect carries the blob")
	verif.Assert(verif.BytesEq(got.Signature, want.Signature) && got.Payload == want.Payload, "released => the blob is the one registered for that GUID, unmodified")
}

// honest device obtains the registered blob
func VerifC07_HonestRelease() {
	verif.NoPanic()
	verif.Bound("C07 honest", "device key kind in {P-256, P-384, RSA-2048}; token built and signed by the real client code (newEAT + Sign)")
	st := newVState()
	kind := verif.Choose("kind", 3)
	guid, dev, blob := vRegister(st, "0", kind)
	var nonce protocol.Nonce
	copy(nonce[:], verif.Bytes("nonce", 16))
	st.to1Nonce = &nonce
	token := cose.Sign1[eatoken, []byte]{Payload: cbor.NewByteWrap(newEAT(guid, nonce, nil, nil))}
	opts, err := signOptsFor(dev, false)
	verif.Assert(err == nil, "sign opts")
	verif.Assert(token.Sign(dev, nil, nil, opts) == nil, "device signs the token")
	wire, err := cbor.Marshal(token.Tag())
	verif.Assert(err == nil, "token encodes")
	srv := &TO1Server{Session: st, RVBlobs: st}
	rt, resp := srv.Respond(context.Background(), protocol.TO1ProveToRVMsgType, bytes.NewReader(wire))
	verif.Assert(rt == protocol.TO1RVRedirectMsgType, "the proven device obtains the redirect")
	got := resp.(*cose.Sign1Tag[protocol.To1d, []byte])
	verif.Assert(verif.BytesEq(got.Signature, blob.Signature), "and it is the registered blob")
	verif.Reached("end")
}

// the blob survives encode/transmit/decode and storage re-encoding with its owner signature intact
func VerifC07_BlobFidelity() {
	verif.NoPanic()
	verif.Bound("C07 fidelity", "owner key kind in {P-256, P-384, RSA-2048}; 1 (quick) / 1..2 (thorough) addresses with IP nil / 4 / 16 symbolic bytes, DNS nil / 1..2 symbolic bytes, symbolic port, protocol id 1..6; hash alg SHA-256/384 with symbolic value")
	kind := verif.Choose("kind", 3)
	owner := &verif.ModelSigner{Pub: vcPub(kind, "owner")}
	var addrs []protocol.RvTO2Addr
	na := 1 + verif.Choose("naddr", 1+verif.Tier())
	nproto := 6
	if verif.Tier() > 0 {
		nproto = 2
	}
	for i := 0; i < na; i++ {
		tag := string(rune('a' + i))
		var a protocol.RvTO2Addr
		switch verif.Choose("ip"+tag, 3) {
		case 1:
			ip := net.IP(verif.Bytes("ip4"+tag, 4))
			a.IPAddress = &ip
		case 2:
			ip := net.IP(verif.Bytes("ip6"+tag, 16))
			a.IPAddress = &ip
		}
		if verif.Choose("dns"+tag, 2) == 1 {
			d := verif.String("dnsname"+tag, 1+verif.Choose("ndns"+tag, 2))
			a.DNSAddress = &d
		}
		a.Port = verif.U16("port" + tag)
		a.TransportProtocol = protocol.TransportProtocol(1 + verif.Choose("proto"+tag, nproto))
		addrs = append(addrs, a)
	}
	ha := []protocol.HashAlg{protocol.Sha256Hash, protocol.Sha384Hash}[verif.Choose("halg", 2)]
	hv := verif.Bytes("hv", 32)
	blob := cose.Sign1[protocol.To1d, []byte]{Payload: cbor.NewByteWrap(protocol.To1d{RV: addrs, To0dHash: protocol.Hash{Algorithm: ha, Value: hv}})}
	opts, err := signOptsFor(owner, false)
	verif.Assert(err == nil, "sign opts")
	verif.Assert(blob.Sign(owner, nil, nil, opts) == nil, "owner signs")
	wire, err := cbor.Marshal(blob.Tag())
	verif.Assert(err == nil, "blob encodes")
	var back cose.Sign1Tag[protocol.To1d, []byte]
	verif.Assert(cbor.Unmarshal(wire, &back) == nil, "blob decodes")
	ok, verr := back.Verify(owner.Pub, nil, nil)
	verif.Assert(verr == nil && ok, "the owner signature still verifies after encode/decode")
	wire2, err := cbor.Marshal(back)
	verif.Assert(err == nil && verif.BytesEq(wire, wire2), "re-encoding the decoded blob reproduces it byte for byte")
	verif.Reached("end")
}

// device side: the redirect blob the device was given (by TO1) is used only if the
// voucher's owner key signed it; otherwise TO2 is aborted before ProveDevice.
func VerifC07_DeviceChecksBlob() {
	verif.NoPanic()
	verif.Expect("blob accepted")
	verif.Expect("blob refused")
	verif.Bound("C07 device", "P-256/P-384; honest owner service and voucher (one entry); redirect blob with one address, symbolic to0d hash, protected alg in {ES256, ES384, unregistered}, payload present, signature = any bytes of the owner key's signature length; transport stops at ProveDevice")
	kind := verif.Choose("kind", 2)
	t := vMkTO2World(kind, false)
	t.loop.cutAt, t.loop.cutKind = 2, 0 // 60, 62, then 64 is lost
	dns := "o"
	blob := protocol.To1d{
		RV:       []protocol.RvTO2Addr{{DNSAddress: &dns, Port: verif.U16("port"), TransportProtocol: protocol.HTTPTransport}},
		To0dHash: protocol.Hash{Algorithm: protocol.Sha256Hash, Value: verif.Bytes("to0dhash", 32)},
	}
	algs := []int64{int64(cose.ES256Alg), int64(cose.ES384Alg), 0}
	alg := algs[verif.Choose("blobalg", 3)]
	to1d := &cose.Sign1[protocol.To1d, []byte]{Payload: cbor.NewByteWrap(blob)}
	to1d.Protected = cose.HeaderMap{cose.AlgLabel: alg}
	to1d.Unprotected = cose.HeaderMap{}
	ownerPub := t.c.owner.Public()
	to1d.Signature = verif.Bytes("to1dsig", verif.SigLen(ownerPub))
	cred, err := TO2(context.Background(), t.loop, to1d, t.cfg)
	verif.Assert(cred == nil && err != nil, "the run is cut at ProveDevice")
	sent64 := false
	for _, m := range t.loop.sent {
		if m == protocol.TO2ProveDeviceMsgType {
			sent64 = true
		}
	}
	if !sent64 {
		verif.Reached("blob refused")
		return
	}
	verif.Reached("blob accepted")
	payloadEnc, e := cbor.Marshal(blob)
	verif.Assert(e == nil, "harness: blob encodes")
	verif.Assert(vwSpecSigned(kind, ownerPub, alg, payloadEnc, to1d.Signature), "the device goes on to ProveDevice => the redirect blob is signed by the voucher's owner key over exactly its protected header and payload")
}
