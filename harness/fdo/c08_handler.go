//go:build verif

package fdo

import (
	"bytes"
	"context"
	"crypto/x509"
	"io"
	nethttp "net/http"
	"net/url"
	"strconv"

	"github.com/fido-device-onboard/go-fdo/cbor"
	"github.com/fido-device-onboard/go-fdo/cose"
	fdohttp "github.com/fido-device-onboard/go-fdo/http"
	"github.com/fido-device-onboard/go-fdo/internal/verif"
	"github.com/fido-device-onboard/go-fdo/kex"
	"github.com/fido-device-onboard/go-fdo/protocol"
	"github.com/fido-device-onboard/go-fdo/serviceinfo"
)

type vRecorder struct {
	hdr    nethttp.Header
	status int
	body   bytes.Buffer
}

func (r *vRecorder) Header() nethttp.Header { return r.hdr }
func (r *vRecorder) Write(b []byte) (int, error) {
	return r.body.Write(b)
}
func (r *vRecorder) WriteHeader(code int) { r.status = code }

func vKeyed(s kex.Session) bool {
	switch x := s.(type) {
	case *vSess:
		return x.keyed
	case *kex.ECDHSession:
		return len(x.SEK) > 0
	case nil:
		return false
	}
	return false
}

// vSess.Decrypt only works once keys exist (the real session crypter has no key otherwise)
type vGatedSess struct{ *vSess }

func (s vGatedSess) Decrypt(r io.Reader, body io.Reader) ([]byte, error) {
	if !s.keyed {
		return nil, ErrInvalidSession
	}
	return io.ReadAll(body)
}

const (
	pNone = iota
	pFresh
	pDI
	pTO0
	pTO1
	pTO2Hello
	pTO2Proved
	pTO2Ready
	pTO2Info
	pProfiles
)

type vC08 struct {
	w          *vWorld
	h          fdohttp.Handler
	guid       protocol.GUID
	dev, owner *verif.ModelSigner
	ov         *Voucher
}

func vC08Setup() *vC08 {
	c := &vC08{w: newVWorld()}
	mfg := &verif.ModelSigner{Pub: vcPub(vcP256, "mfg")}
	secret := verif.Bytes("secret", 32)
	ov, owners := vwHonestVoucherDev(vcP256, mfg, 1, secret, &c.dev)
	c.ov, c.owner, c.guid = ov, owners[1], ov.Header.Val.GUID
	c.w.store.vouchers[c.guid] = ov
	c.w.store.ownerKeys[ov.Header.Val.ManufacturerKey.Type] = c.owner
	// a registered redirect at the rendezvous side
	dns := "o"
	blob := &cose.Sign1[protocol.To1d, []byte]{Payload: cbor.NewByteWrap(protocol.To1d{
		RV:       []protocol.RvTO2Addr{{DNSAddress: &dns, Port: 8080, TransportProtocol: protocol.HTTPTransport}},
		To0dHash: protocol.Hash{Algorithm: protocol.Sha256Hash, Value: verif.Bytes("to0dhash", 32)},
	})}
	blob.Protected, blob.Unprotected = cose.HeaderMap{cose.AlgLabel: int64(cose.ES256Alg)}, cose.HeaderMap{}
	blob.Signature = verif.Bytes("blobsig", 64)
	c.w.store.blobs[c.guid] = &vBlob{ov: ov, to1d: blob}
	devCert := (*ov.CertChain)[0]
	_ = devCert
	c.h = fdohttp.Handler{
		Tokens: c.w,
		DIResponder: &DIServer[int]{Session: c.w, Vouchers: c.w,
			SignDeviceCertificate: func(*int) ([]*x509.Certificate, error) {
				return []*x509.Certificate{(*x509.Certificate)((*c.ov.CertChain)[0])}, nil
			},
			DeviceInfo: func(context.Context, *int, []*x509.Certificate) (string, protocol.PublicKey, error) {
				return "d", c.ov.Header.Val.ManufacturerKey, nil
			},
			RvInfo: func(context.Context, *Voucher) ([][]protocol.RvInstruction, error) { return nil, nil }},
		TO0Responder: &TO0Server{Session: c.w, RVBlobs: c.w},
		TO1Responder: &TO1Server{Session: c.w, RVBlobs: c.w},
		TO2Responder: &TO2Server{Session: c.w, Modules: &vModules{c.w}, Vouchers: c.w, OwnerKeys: c.w,
			RvInfo: func(context.Context, Voucher) ([][]protocol.RvInstruction, error) { return nil, nil }},
	}
	return c
}

func (c *vC08) fill(s *vState, profile int, tag string) {
	nonce := func(n string) *protocol.Nonce {
		var x protocol.Nonce
		copy(x[:], verif.Bytes(n+tag, 16))
		return &x
	}
	switch {
	case profile == pDI:
		hdr := c.ov.Header.Val
		s.ovh = &hdr
		s.devChain = nil
		for _, cert := range *c.ov.CertChain {
			s.devChain = append(s.devChain, (*x509.Certificate)(cert))
		}
	case profile == pTO0:
		s.to0Nonce = nonce("to0nonce")
	case profile == pTO1:
		s.to1Nonce = nonce("to1nonce")
	case profile >= pTO2Hello:
		g := c.guid
		s.guid = &g
		s.proveNonce = nonce("provenonce")
		sess := &vSess{}
		s.xSuite, s.xSess = kex.ECDH256Suite, vGatedSess{sess}
		if profile >= pTO2Proved {
			sess.keyed = true
			s.setupNonce = nonce("setupnonce")
			var rg protocol.GUID
			copy(rg[:], verif.Bytes("replguid"+tag, 16))
			s.replGUID = &rg
			s.rvInfo, s.hasRvInfo = nil, true
		}
		if profile >= pTO2Ready {
			m := uint16(1300)
			s.mtu = &m
			s.replHmac = &protocol.Hmac{Algorithm: protocol.HmacSha256Hash, Value: verif.Bytes("replhmac"+tag, 32)}
		}
		if profile >= pTO2Info {
			s.devmod = &serviceinfo.Devmod{}
			s.devmodModules = []string{"devmod"}
			s.devmodComplete = true
		}
	}
}

var vC08Types = []int{10, 12, 20, 22, 30, 32, 60, 62, 64, 66, 68, 70, 255, 11, 99}

func vNonceOr(p *protocol.Nonce, name string) protocol.Nonce {
	if p != nil {
		if verif.Choose("use_"+name, 2) == 0 {
			return *p
		}
	}
	var x protocol.Nonce
	copy(x[:], verif.Bytes(name, 16))
	return x
}

// body builds a well-formed message of the given type with symbolic values; where the
// session holds a nonce, the message either echoes it or carries an arbitrary one.
func (c *vC08) body(msgType int, s *vState) []byte {
	enc := func(v any) []byte {
		b, err := cbor.Marshal(v)
		verif.Assert(err == nil, "harness: message encodes")
		return b
	}
	if s == nil {
		s = &vState{}
	}
	switch msgType {
	case 10:
		return enc(struct{ Info *cbor.Bstr[int] }{})
	case 12:
		return enc(struct{ Hmac protocol.Hmac }{protocol.Hmac{Algorithm: protocol.HmacSha256Hash, Value: verif.Bytes("dihmac", 32)}})
	case 20:
		return enc(struct{}{})
	case 22:
		t0 := to0d{Voucher: *c.ov, WaitSeconds: 3600, NonceTO0Sign: vNonceOr(s.to0Nonce, "msg_to0nonce")}
		t0enc := enc(t0)
		dns := "o"
		to1d := cose.Sign1[protocol.To1d, []byte]{Payload: cbor.NewByteWrap(protocol.To1d{
			RV:       []protocol.RvTO2Addr{{DNSAddress: &dns, Port: 8080, TransportProtocol: protocol.HTTPTransport}},
			To0dHash: protocol.Hash{Algorithm: protocol.Sha256Hash, Value: vwHashOf(protocol.Sha256Hash, t0enc)},
		})}
		verif.Assert(to1d.Sign(c.owner, nil, nil, nil) == nil, "harness: owner signs")
		return enc(ownerSign{To0d: *cbor.NewBstr(t0), To1d: *to1d.Tag()})
	case 30:
		return enc(helloRV{GUID: c.guid, ASigInfo: sigInfo{Type: cose.ES256Alg}})
	case 32:
		tok := cose.Sign1[eatoken, []byte]{Payload: cbor.NewByteWrap(newEAT(c.guid, vNonceOr(s.to1Nonce, "msg_to1nonce"), nil, nil))}
		verif.Assert(tok.Sign(c.dev, nil, nil, nil) == nil, "harness: device signs")
		return enc(tok.Tag())
	case 60:
		var n protocol.Nonce
		copy(n[:], verif.Bytes("hellononce", 16))
		return enc(helloDeviceMsg{MaxDeviceMessageSize: 65535, GUID: c.guid, NonceTO2ProveOV: n, KexSuiteName: kex.ECDH256Suite, CipherSuite: kex.A128GcmCipher, SigInfoA: sigInfo{Type: cose.ES256Alg}})
	case 62:
		return enc(struct{ OVEntryNum int }{0})
	case 64:
		var sn protocol.Nonce
		copy(sn[:], verif.Bytes("msg_setupnonce", 16))
		tok := cose.Sign1[eatoken, []byte]{
			Header:  cose.Header{Unprotected: map[cose.Label]any{eatUnprotectedNonceClaim: sn}},
			Payload: cbor.NewByteWrap(newEAT(c.guid, vNonceOr(s.proveNonce, "msg_provenonce"), struct{ KeyExchangeB []byte }{verif.Bytes("xb", 2)}, nil)),
		}
		verif.Assert(tok.Sign(c.dev, nil, nil, nil) == nil, "harness: device signs")
		return enc(tok.Tag())
	case 66:
		h := protocol.Hmac{Algorithm: protocol.HmacSha256Hash, Value: verif.Bytes("msg_replhmac", 32)}
		return enc(deviceServiceInfoReady{Hmac: &h})
	case 68:
		if verif.Choose("devmodbody", 2) == 1 {
			// the device's complete devmod (what an honest first DeviceServiceInfo carries)
			str := func(s string) []byte { return append([]byte{0x60 | byte(len(s))}, s...) }
			return enc(deviceServiceInfo{IsMoreServiceInfo: false, ServiceInfo: []*serviceinfo.KV{
				{Key: "devmod:active", Val: []byte{0xf5}}, {Key: "devmod:os", Val: str("o")}, {Key: "devmod:arch", Val: str("a")},
				{Key: "devmod:version", Val: str("v")}, {Key: "devmod:device", Val: str("d")}, {Key: "devmod:sep", Val: str("/")},
				{Key: "devmod:bin", Val: str("b")}, {Key: "devmod:nummodules", Val: []byte{0x01}},
				{Key: "devmod:modules", Val: append([]byte{0x83, 0x00, 0x01}, str("devmod")...)}}})
		}
		return enc(deviceServiceInfo{IsMoreServiceInfo: false, ServiceInfo: []*serviceinfo.KV{{Key: "m:x", Val: []byte{0x01}}}})
	case 70:
		return enc(doneMsg{NonceTO2ProveDv: vNonceOr(s.proveNonce, "msg_donenonce")})
	case 255:
		return enc(protocol.ErrorMessage{Code: 100, PrevMsgType: uint8([]int{61, 21, 31, 11, 0}[verif.Choose("prevmsg", 5)]), ErrString: "e", Timestamp: 1})
	}
	return []byte{0x80}
}

type vSnap struct {
	exists                                                               bool
	devChain, ovh, to0, to1, guid, prove, setup, repl, rvinfo, mtu, hmac, devmod bool
	keyed, devmodDone                                                    bool
	proveVal, to0Val, to1Val                                             protocol.Nonce
}

func vSnapOf(w *vWorld, tok string) vSnap {
	s, ok := w.sessions[tok]
	if !ok {
		return vSnap{}
	}
	sn := vSnap{exists: true, devChain: s.devChain != nil, ovh: s.ovh != nil, to0: s.to0Nonce != nil, to1: s.to1Nonce != nil,
		guid: s.guid != nil, prove: s.proveNonce != nil, setup: s.setupNonce != nil, repl: s.replGUID != nil, rvinfo: s.hasRvInfo,
		mtu: s.mtu != nil, hmac: s.replHmac != nil, devmod: s.devmod != nil, keyed: vKeyed(unwrapSess(s.xSess)), devmodDone: s.devmod != nil && s.devmodComplete}
	if s.proveNonce != nil {
		sn.proveVal = *s.proveNonce
	}
	if s.to0Nonce != nil {
		sn.to0Val = *s.to0Nonce
	}
	if s.to1Nonce != nil {
		sn.to1Val = *s.to1Nonce
	}
	return sn
}

func unwrapSess(s kex.Session) kex.Session {
	if g, ok := s.(vGatedSess); ok {
		return g.vSess
	}
	return s
}

// One request against the real HTTP handler and the real responders from every
// protocol-reachable session profile: effects only through in-order, session-bound messages.
func VerifC08_OneStep() { vOneStep(false) }

// C10: no request shape of this grammar crashes the HTTP handler or a responder
func VerifC10_HandlerOneStep() { vOneStep(true) }

func vOneStep(nopanic bool) {
	verif.Bound("C08", "one request of type in {10,12,20,22,30,32,60,62,64,66,68,70,255,11,99}; bearer token absent / this session / another session / missing 'Bearer ' prefix / unknown; this session in one of 9 profiles (none, fresh, after DI 10, after TO0 20, after TO1 30, after TO2 60, after TO2 64 (tunnel keys), after 66, after 68); another fully populated TO2 session for isolation; message bodies well-formed with symbolic values, nonces either echoing the session's or arbitrary; model key-exchange session whose Decrypt needs tunnel keys; HTTP Content-Length = actual, -1 (unknown) or 70000 (above the limit)")
	c := vC08Setup()
	w := c.w
	msgType := vC08Types[verif.Choose("msgtype", len(vC08Types))]
	profile := verif.Choose("profile", pProfiles)
	tokStatus := verif.Choose("token", 5) // 0 absent, 1 A, 2 B, 3 malformed prefix, 4 unknown
	if profile != pNone {
		c.fill(w.newSession("TA"), profile, "A")
	}
	sb := w.newSession("TB")
	c.fill(sb, pTO2Info, "B")
	var extra protocol.Nonce
	copy(extra[:], verif.Bytes("to0nonceB", 16))
	sb.to0Nonce = &extra

	var reqSess *vState
	reqTok := ""
	hdr := nethttp.Header{}
	switch tokStatus {
	case 1:
		reqTok = "TA"
		hdr.Set("Authorization", "Bearer TA")
	case 2:
		reqTok = "TB"
		hdr.Set("Authorization", "Bearer TB")
	case 3:
		hdr.Set("Authorization", "TA")
	case 4:
		reqTok = "TX"
		hdr.Set("Authorization", "Bearer TX")
	}
	reqSess = w.sessions[reqTok]
	body := c.body(msgType, reqSess)
	beforeA, beforeB := vSnapOf(w, "TA"), vSnapOf(w, "TB")
	beforeReq := vSnapOf(w, reqTok)

	// HTTP framing of the request: declared length, or a length the handler must refuse
	// (unknown/chunked, or above the limit) - a refusal is an error like any other
	clen := int64(len(body))
	framing := verif.Choose("framing", 3)
	switch framing {
	case 1:
		clen = -1
	case 2:
		clen = 70000
	}
	req := &nethttp.Request{Method: "POST", URL: &url.URL{Path: "/fdo/101/msg/" + strconv.Itoa(msgType)}, Header: hdr,
		Body: io.NopCloser(bytes.NewReader(body)), ContentLength: clen}
	rec := &vRecorder{hdr: nethttp.Header{}}
	panicked := vRun(nopanic, func() { c.h.ServeHTTP(rec, req) })
	if panicked {
		verif.Reached("panicked")
		// a crashing request must not have caused an effect either
		verif.Assert(w.count("AddVoucher")+w.count("SetRVBlob")+w.count("ReplaceVoucher") == 0, "a crashing request has no persistent effect")
		return
	}
	respType, _ := strconv.Atoi(rec.hdr.Get("Message-Type"))
	if framing != 0 && msgType != 11 && msgType != 99 && msgType != 255 {
		verif.Assert(respType == 255, "a request without a declared length or above the size limit is answered with an error message")
		verif.Assert(w.count("AddVoucher")+w.count("SetRVBlob")+w.count("ReplaceVoucher")+w.count("HandleInfo")+w.count("ProduceInfo") == 0, "and has no effect")
		if w.count("NewToken") > 0 {
			verif.Assert(w.invalidated("T1"), "a token minted for a refused protocol start is invalidated at once")
		}
	}
	isStart := msgType == 10 || msgType == 20 || msgType == 30 || msgType == 60
	validTok := reqSess != nil

	// effects
	if w.count("NewToken") > 0 {
		verif.Assert(isStart, "a token is minted only by a protocol's first message")
	}
	if w.count("AddVoucher") > 0 {
		verif.Assert(msgType == 12 && validTok && beforeReq.ovh && beforeReq.devChain, "a DI voucher is stored only by DI.SetHMAC in a session that holds the header and certificate chain from DI.AppStart")
	}
	if w.count("SetRVBlob") > 0 {
		verif.Assert(msgType == 22 && validTok && beforeReq.to0, "a rendezvous blob is stored only by TO0.OwnerSign in a session that holds the nonce from TO0.Hello")
	}
	if w.count("HandleInfo")+w.count("ProduceInfo") > 0 {
		verif.Assert(msgType == 68 && validTok && beforeReq.keyed && beforeReq.devmod, "an owner module runs only on TO2.DeviceServiceInfo in a session with tunnel keys and devmod state")
		verif.Assert(beforeReq.mtu && beforeReq.devmodDone, "an owner module runs only after TO2.DeviceServiceInfoReady was accepted and devmod was completed in this session")
	}
	if w.count("ReplaceVoucher") > 0 {
		verif.Assert(msgType == 70 && validTok && beforeReq.keyed && beforeReq.prove && beforeReq.setup && beforeReq.hmac && beforeReq.repl && beforeReq.rvinfo,
			"a voucher is replaced only by TO2.Done in a session with tunnel keys, both nonces and the replacement GUID, rendezvous info and HMAC of this session")
	}
	// no token / forged / malformed token on a non-start message: error, nothing changes
	if !validTok && !isStart && msgType != 255 {
		// the statement allows "an error message or at least none of those effects": only the effects are asserted
		verif.Assert(w.count("AddVoucher")+w.count("SetRVBlob")+w.count("ReplaceVoucher")+w.count("HandleInfo")+w.count("ProduceInfo") == 0, "a request without a valid token (other than a protocol start) has none of the effects")
		if msgType != 11 && msgType != 99 {
			verif.Assert(respType == 255, "a protocol request without a valid token is answered with an error message")
		}
	}
	// isolation: sessions other than the request's are untouched
	if reqTok != "TB" {
		verif.Assert(verif.DeepEq(vSnapOf(w, "TB"), beforeB), "another session's state is untouched")
	}
	if reqTok != "TA" {
		verif.Assert(verif.DeepEq(vSnapOf(w, "TA"), beforeA), "this request does not touch a session whose token it does not carry")
	}
	// tunnel keys appear only through an accepted ProveDevice of that session
	for _, tok := range []string{"TA", "TB", "T1"} {
		after := vSnapOf(w, tok)
		before := vSnap{}
		if tok == "TA" {
			before = beforeA
		} else if tok == "TB" {
			before = beforeB
		}
		if after.keyed && !before.keyed {
			verif.Assert(msgType == 64 && respType == 65 && tok == reqTok, "tunnel keys appear only through an accepted TO2.ProveDevice of that same session")
		}
		if after.exists {
			verif.Assert(!(after.mtu || after.hmac || after.devmod) || after.keyed, "post-ProveDevice state (MTU, replacement HMAC, devmod) exists only in sessions with tunnel keys")
			verif.Assert(!after.keyed || (after.guid && after.prove), "sessions with tunnel keys hold GUID and ProveDevice nonce")
			verif.Assert(!after.devmodDone || after.mtu, "devmod is completed (and owner modules started) only in sessions that went through TO2.DeviceServiceInfoReady")
		}
	}
	// token lifetime
	if respType == 13 || respType == 23 || respType == 33 || respType == 71 {
		verif.Assert(validTok && w.invalidated(reqTok), "after a protocol's final message the token is invalidated")
	}
	if respType == 255 && validTok && msgType != 11 && msgType != 99 && !isStart {
		verif.Assert(w.invalidated(reqTok), "after an error while processing a session's message the token is invalidated")
	}
	if respType == 255 && isStart && w.count("NewToken") > 0 {
		// a protocol start opens a new session whatever token it carried: that new session is the one that ends
		verif.Assert(w.invalidated("T1"), "after an error in a protocol's first message the token minted for it is invalidated")
	}
	if msgType == 255 && validTok {
		verif.Assert(w.invalidated(reqTok), "an error message from the peer invalidates the token")
	}
	verif.Reached("end")
}
