//go:build verif

package fdo

import (
	"context"
	"errors"
	"crypto"
	"crypto/x509"
	"io"
	"time"

	"github.com/fido-device-onboard/go-fdo/cose"
	"github.com/fido-device-onboard/go-fdo/kex"
	"github.com/fido-device-onboard/go-fdo/protocol"
	"github.com/fido-device-onboard/go-fdo/serviceinfo"
)

// vWorld: token service + multi-session state store + effect log.
type vWorld struct {
	sessions map[string]*vState
	store    *vState // persistent part (vouchers, blobs, owner keys) and effect counters
	log      []string
	next     int
	// storage fault injection: the faultAt-th session-state access (1-based) fails
	// with an error that is not ErrNotFound; 0 = never
	stCalls, faultAt int
}

var errStorageFault = errors.New("harness: injected storage fault")

type vTokKey struct{}

func newVWorld() *vWorld {
	return &vWorld{sessions: map[string]*vState{}, store: newVState()}
}

func (w *vWorld) newSession(tok string) *vState {
	s := &vState{vouchers: w.store.vouchers, blobs: w.store.blobs, ownerKeys: w.store.ownerKeys}
	w.sessions[tok] = s
	return s
}

// protocol.TokenService
func (w *vWorld) NewToken(ctx context.Context, p protocol.Protocol) (string, error) {
	w.next++
	tok := "T" + string(rune('0'+w.next))
	w.newSession(tok)
	w.log = append(w.log, "NewToken")
	return tok, nil
}
func (w *vWorld) InvalidateToken(ctx context.Context) error {
	tok, _ := ctx.Value(vTokKey{}).(string)
	if _, ok := w.sessions[tok]; !ok {
		return ErrInvalidSession
	}
	delete(w.sessions, tok)
	w.log = append(w.log, "Invalidate:"+tok)
	return nil
}
func (w *vWorld) TokenContext(ctx context.Context, tok string) context.Context {
	return context.WithValue(ctx, vTokKey{}, tok)
}
func (w *vWorld) TokenFromContext(ctx context.Context) (string, bool) {
	tok, ok := ctx.Value(vTokKey{}).(string)
	return tok, ok
}

func (w *vWorld) st(ctx context.Context) (*vState, error) {
	w.stCalls++
	if w.stCalls == w.faultAt {
		return nil, errStorageFault
	}
	tok, _ := ctx.Value(vTokKey{}).(string)
	s, ok := w.sessions[tok]
	if !ok {
		return nil, ErrInvalidSession
	}
	return s, nil
}

func (w *vWorld) invalidated(tok string) bool {
	for _, l := range w.log {
		if l == "Invalidate:"+tok {
			return true
		}
	}
	return false
}
func (w *vWorld) count(what string) int {
	n := 0
	for _, l := range w.log {
		if l == what {
			n++
		}
	}
	return n
}

// ---- session state interfaces, dispatched by token ----

func (w *vWorld) SetDeviceCertChain(ctx context.Context, c []*x509.Certificate) error {
	s, err := w.st(ctx)
	if err != nil {
		return err
	}
	return s.SetDeviceCertChain(ctx, c)
}
func (w *vWorld) DeviceCertChain(ctx context.Context) ([]*x509.Certificate, error) {
	s, err := w.st(ctx)
	if err != nil {
		return nil, err
	}
	return s.DeviceCertChain(ctx)
}
func (w *vWorld) SetIncompleteVoucherHeader(ctx context.Context, h *VoucherHeader) error {
	s, err := w.st(ctx)
	if err != nil {
		return err
	}
	return s.SetIncompleteVoucherHeader(ctx, h)
}
func (w *vWorld) IncompleteVoucherHeader(ctx context.Context) (*VoucherHeader, error) {
	s, err := w.st(ctx)
	if err != nil {
		return nil, err
	}
	return s.IncompleteVoucherHeader(ctx)
}
func (w *vWorld) SetTO0SignNonce(ctx context.Context, n protocol.Nonce) error {
	s, err := w.st(ctx)
	if err != nil {
		return err
	}
	return s.SetTO0SignNonce(ctx, n)
}
func (w *vWorld) TO0SignNonce(ctx context.Context) (protocol.Nonce, error) {
	s, err := w.st(ctx)
	if err != nil {
		return protocol.Nonce{}, err
	}
	return s.TO0SignNonce(ctx)
}
func (w *vWorld) SetTO1ProofNonce(ctx context.Context, n protocol.Nonce) error {
	s, err := w.st(ctx)
	if err != nil {
		return err
	}
	return s.SetTO1ProofNonce(ctx, n)
}
func (w *vWorld) TO1ProofNonce(ctx context.Context) (protocol.Nonce, error) {
	s, err := w.st(ctx)
	if err != nil {
		return protocol.Nonce{}, err
	}
	return s.TO1ProofNonce(ctx)
}
func (w *vWorld) SetGUID(ctx context.Context, g protocol.GUID) error {
	s, err := w.st(ctx)
	if err != nil {
		return err
	}
	return s.SetGUID(ctx, g)
}
func (w *vWorld) GUID(ctx context.Context) (protocol.GUID, error) {
	s, err := w.st(ctx)
	if err != nil {
		return protocol.GUID{}, err
	}
	return s.GUID(ctx)
}
func (w *vWorld) SetRvInfo(ctx context.Context, r [][]protocol.RvInstruction) error {
	s, err := w.st(ctx)
	if err != nil {
		return err
	}
	return s.SetRvInfo(ctx, r)
}
func (w *vWorld) RvInfo(ctx context.Context) ([][]protocol.RvInstruction, error) {
	s, err := w.st(ctx)
	if err != nil {
		return nil, err
	}
	return s.RvInfo(ctx)
}
func (w *vWorld) SetReplacementGUID(ctx context.Context, g protocol.GUID) error {
	s, err := w.st(ctx)
	if err != nil {
		return err
	}
	return s.SetReplacementGUID(ctx, g)
}
func (w *vWorld) ReplacementGUID(ctx context.Context) (protocol.GUID, error) {
	s, err := w.st(ctx)
	if err != nil {
		return protocol.GUID{}, err
	}
	return s.ReplacementGUID(ctx)
}
func (w *vWorld) SetReplacementHmac(ctx context.Context, h protocol.Hmac) error {
	s, err := w.st(ctx)
	if err != nil {
		return err
	}
	return s.SetReplacementHmac(ctx, h)
}
func (w *vWorld) ReplacementHmac(ctx context.Context) (protocol.Hmac, error) {
	s, err := w.st(ctx)
	if err != nil {
		return protocol.Hmac{}, err
	}
	return s.ReplacementHmac(ctx)
}
func (w *vWorld) SetXSession(ctx context.Context, suite kex.Suite, sess kex.Session) error {
	s, err := w.st(ctx)
	if err != nil {
		return err
	}
	return s.SetXSession(ctx, suite, sess)
}
func (w *vWorld) XSession(ctx context.Context) (kex.Suite, kex.Session, error) {
	s, err := w.st(ctx)
	if err != nil {
		return "", nil, err
	}
	return s.XSession(ctx)
}
func (w *vWorld) SetProveDeviceNonce(ctx context.Context, n protocol.Nonce) error {
	s, err := w.st(ctx)
	if err != nil {
		return err
	}
	return s.SetProveDeviceNonce(ctx, n)
}
func (w *vWorld) ProveDeviceNonce(ctx context.Context) (protocol.Nonce, error) {
	s, err := w.st(ctx)
	if err != nil {
		return protocol.Nonce{}, err
	}
	return s.ProveDeviceNonce(ctx)
}
func (w *vWorld) SetSetupDeviceNonce(ctx context.Context, n protocol.Nonce) error {
	s, err := w.st(ctx)
	if err != nil {
		return err
	}
	return s.SetSetupDeviceNonce(ctx, n)
}
func (w *vWorld) SetupDeviceNonce(ctx context.Context) (protocol.Nonce, error) {
	s, err := w.st(ctx)
	if err != nil {
		return protocol.Nonce{}, err
	}
	return s.SetupDeviceNonce(ctx)
}
func (w *vWorld) SetMTU(ctx context.Context, m uint16) error {
	s, err := w.st(ctx)
	if err != nil {
		return err
	}
	return s.SetMTU(ctx, m)
}
func (w *vWorld) MTU(ctx context.Context) (uint16, error) {
	s, err := w.st(ctx)
	if err != nil {
		return 0, err
	}
	return s.MTU(ctx)
}
func (w *vWorld) SetDevmod(ctx context.Context, d serviceinfo.Devmod, modules []string, complete bool) error {
	s, err := w.st(ctx)
	if err != nil {
		return err
	}
	return s.SetDevmod(ctx, d, modules, complete)
}
func (w *vWorld) Devmod(ctx context.Context) (serviceinfo.Devmod, []string, bool, error) {
	s, err := w.st(ctx)
	if err != nil {
		return serviceinfo.Devmod{}, nil, false, err
	}
	return s.Devmod(ctx)
}

// ---- persistent state (shared), effects logged ----

func (w *vWorld) SetRVBlob(ctx context.Context, ov *Voucher, b *cose.Sign1[protocol.To1d, []byte], exp time.Time) error {
	w.log = append(w.log, "SetRVBlob")
	return w.store.SetRVBlob(ctx, ov, b, exp)
}
func (w *vWorld) RVBlob(ctx context.Context, g protocol.GUID) (*cose.Sign1[protocol.To1d, []byte], *Voucher, error) {
	return w.store.RVBlob(ctx, g)
}
func (w *vWorld) OwnerKey(ctx context.Context, kt protocol.KeyType, bits int) (crypto.Signer, []*x509.Certificate, error) {
	return w.store.OwnerKey(ctx, kt, bits)
}
func (w *vWorld) AddVoucher(ctx context.Context, ov *Voucher) error {
	w.log = append(w.log, "AddVoucher")
	return w.store.AddVoucher(ctx, ov)
}
func (w *vWorld) Voucher(ctx context.Context, g protocol.GUID) (*Voucher, error) {
	return w.store.Voucher(ctx, g)
}
func (w *vWorld) ReplaceVoucher(ctx context.Context, g protocol.GUID, ov *Voucher) error {
	w.log = append(w.log, "ReplaceVoucher")
	return w.store.ReplaceVoucher(ctx, g, ov)
}

// ---- owner module state machine with one recording module ----

type vModule struct{ w *vWorld }

func (m *vModule) HandleInfo(ctx context.Context, name string, body io.Reader) error {
	m.w.log = append(m.w.log, "HandleInfo")
	_, err := io.Copy(io.Discard, body)
	return err
}
func (m *vModule) ProduceInfo(ctx context.Context, p *serviceinfo.Producer) (bool, bool, error) {
	m.w.log = append(m.w.log, "ProduceInfo")
	return false, true, nil
}

type vModules struct{ w *vWorld }

func (m *vModules) Module(ctx context.Context) (string, serviceinfo.OwnerModule, error) {
	if _, err := m.w.st(ctx); err != nil {
		return "", nil, err
	}
	return "m", &vModule{m.w}, nil
}
func (m *vModules) NextModule(ctx context.Context) (bool, error) { return false, nil }
func (m *vModules) CleanupModules(ctx context.Context)           { m.w.log = append(m.w.log, "CleanupModules") }
