//go:build verif

package fdo

import (
	"crypto"
	"crypto/rsa"

	"github.com/fido-device-onboard/go-fdo/cose"
	"github.com/fido-device-onboard/go-fdo/internal/verif"
	"github.com/fido-device-onboard/go-fdo/kex"
	"github.com/fido-device-onboard/go-fdo/protocol"
)

const (
	vcP256 = iota
	vcP384
	vcRSA2048
	vcRSA3072
	vcKinds
)

func vcPub(kind int, tag string) crypto.PublicKey {
	switch kind {
	case vcP256:
		return verif.NewECPub(verif.KindP256, verif.Bytes("xy"+tag, 64))
	case vcP384:
		return verif.NewECPub(verif.KindP384, verif.Bytes("xy"+tag, 96))
	case vcRSA2048:
		return verif.NewRSAPub(verif.Bytes("n"+tag, 256))
	}
	return verif.NewRSAPub(verif.Bytes("n"+tag, 384))
}

var vcSuites = []kex.Suite{kex.DHKEXid14Suite, kex.DHKEXid15Suite, kex.ASYMKEX2048Suite, kex.ASYMKEX3072Suite, kex.ECDH256Suite, kex.ECDH384Suite, "ECDH521", ""}

// specification table (FDO 1.1 section 3.6.5): the key-exchange suite follows the owner key.
func vcSpecValid(owner int, s kex.Suite) bool {
	switch owner {
	case vcRSA2048:
		return s == kex.DHKEXid14Suite || s == kex.ASYMKEX2048Suite
	case vcRSA3072:
		return s == kex.DHKEXid15Suite || s == kex.ASYMKEX3072Suite
	case vcP256:
		return s == kex.ECDH256Suite
	case vcP384:
		return s == kex.ECDH384Suite
	}
	return false
}

// (1)(2)(3): device-side and owner-side verdicts agree; for ECDSA device keys they
// equal the specification table; signature-info / key-type maps are consistent.
func VerifC09_Negotiation() {
	verif.NoPanic()
	verif.Bound("C09", "device key kind x owner key kind in {P-256, P-384, RSA-2048, RSA-3072}^2 x PSS flag x 6 registered suites + 2 unregistered names: complete finite domain, key material symbolic")
	dk := verif.Choose("device", vcKinds)
	ok_ := verif.Choose("owner", vcKinds)
	pss := verif.Choose("pss", 2) == 1
	suite := vcSuites[verif.Choose("suite", len(vcSuites))]
	devPub := vcPub(dk, "d")
	ownPub := vcPub(ok_, "o")
	devKey := &verif.ModelSigner{Pub: devPub}

	si, err := sigInfoFor(devKey, pss)
	verif.Assert(err == nil, "sigInfoFor succeeds for every supported device key")
	deviceSide := suite.Valid(devPub, ownPub)
	ownerSide := suite.Valid(si.Type, ownPub)
	verif.Assert(deviceSide == ownerSide, "device and owner reach the same verdict on the key-exchange suite")
	if dk == vcP256 || dk == vcP384 {
		verif.Assert(deviceSide == vcSpecValid(ok_, suite), "for ECDSA device keys the verdict is the specification's table")
	}
	if deviceSide {
		registered := false
		for _, s := range vcSuites[:6] {
			if s == suite {
				registered = true
			}
		}
		if dk == vcP256 || dk == vcP384 {
			verif.Assert(registered, "a valid verdict names a registered suite")
		}
	}

	// signature info <-> key type maps
	kt, opts, err := keyTypeFor(si.Type)
	verif.Assert(err == nil, "keyTypeFor accepts every signature type sigInfoFor produces")
	var want protocol.KeyType
	switch {
	case dk == vcP256:
		want = protocol.Secp256r1KeyType
	case dk == vcP384:
		want = protocol.Secp384r1KeyType
	case pss:
		want = protocol.RsaPssKeyType
	case dk == vcRSA2048:
		want = protocol.Rsa2048RestrKeyType
	default:
		want = protocol.RsaPkcsKeyType
	}
	verif.Assert(kt == want, "key type derived from the signature info is the device key's type")
	sopts, err := signOptsFor(devKey, pss)
	verif.Assert(err == nil, "signOptsFor succeeds")
	if dk >= vcRSA2048 {
		_, p1 := opts.(*rsa.PSSOptions)
		_, p2 := sopts.(*rsa.PSSOptions)
		verif.Assert(p1 == p2 && p1 == pss, "PSS is used on both sides exactly when configured")
		verif.Assert(opts.HashFunc() == sopts.HashFunc(), "both sides use the same hash for the device signature")
		alg, err := cose.SignatureAlgorithmFor(devPub, sopts)
		verif.Assert(err == nil && alg == si.Type, "the signing algorithm id is the advertised one")
	} else {
		verif.Assert(opts == nil && sopts == nil, "ECDSA keys need no signer options")
	}

	// hash strength: total, symmetric, minimum of both sides
	h1, err1 := hashAlgFor(devPub, ownPub)
	h2, err2 := hashAlgFor(ownPub, devPub)
	verif.Assert(err1 == nil && err2 == nil && h1 == h2, "hashAlgFor is total and symmetric on supported kinds")
	weak := dk == vcP256 || dk == vcRSA2048 || ok_ == vcP256 || ok_ == vcRSA2048
	if weak {
		verif.Assert(h1 == protocol.Sha256Hash, "SHA-256 when either side is a 256-bit-strength key")
	} else {
		verif.Assert(h1 == protocol.Sha384Hash, "SHA-384 when both sides are 384-bit-strength keys")
	}
	verif.Reached("end")
}

var vcCiphers = []kex.CipherSuiteID{kex.A128GcmCipher, kex.A192GcmCipher, kex.A256GcmCipher, kex.CoseAes128CbcCipher, kex.CoseAes128CtrCipher, kex.CoseAes256CbcCipher, kex.CoseAes256CtrCipher,
	kex.AesCcm16_128_128Cipher, kex.AesCcm16_128_256Cipher, kex.AesCcm64_128_128Cipher, kex.AesCcm64_128_256Cipher, 0, 4, -1}

// (4): Available is true exactly on the registered pairs and every available pair is constructible.
func VerifC09_Available() {
	verif.NoPanic()
	suite := vcSuites[verif.Choose("suite", len(vcSuites))]
	ci := verif.Choose("cipher", len(vcCiphers))
	c := vcCiphers[ci]
	av := kex.Available(suite, c)
	regSuite := suite != "ECDH521" && suite != ""
	regCipher := ci < 7
	verif.Assert(av == (regSuite && regCipher), "Available is true exactly on the 6 x 7 registered (suite, cipher) pairs")
	if av {
		s := suite.New(nil, c)
		verif.Assert(s != nil, "an available pair constructs a session")
		cs := c.Suite()
		verif.Assert(cs.EncryptAlg.KeySize() > 0, "cipher key size lookup succeeds")
		if cs.MacAlg != 0 {
			verif.Assert(cs.MacAlg.KeySize() > 0, "MAC key size lookup succeeds")
		}
	} else if !regSuite {
		verif.Assert(suite.New(nil, kex.A128GcmCipher) == nil, "an unregistered suite constructs nothing")
	}
	verif.Reached("end")
}
