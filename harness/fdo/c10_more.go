//go:build verif

package fdo

import (
	"bytes"
	"context"
	"io"
	nethttp "net/http"
	"net/url"
	"strconv"

	"github.com/fido-device-onboard/go-fdo/cbor"
	"github.com/fido-device-onboard/go-fdo/cose"
	fdohttp "github.com/fido-device-onboard/go-fdo/http"
	"github.com/fido-device-onboard/go-fdo/internal/verif"
	"github.com/fido-device-onboard/go-fdo/kex"
	"github.com/fido-device-onboard/go-fdo/protocol"
	"github.com/fido-device-onboard/go-fdo/serviceinfo"
)

var vBigInts = []int{-1, 0, 1, 2, 3, 1 << 20, 1 << 40, 1<<63 - 1, -1 << 63}

// GetOVNextEntry with any index
func VerifC10_OVNextEntryIndex() {
	verif.NoPanic()
	verif.Bound("C10 ovnextentry", "stored voucher with 1 entry; requested index in {-1,0,1,2,3,2^20,2^40,MaxInt64,MinInt64}")
	w := vMkOwnerWorld(vcP256)
	w.st.guid = &w.guid
	idx := vBigInts[verif.Choose("idx", len(vBigInts))]
	body, err := cbor.Marshal(struct{ OVEntryNum int }{idx})
	verif.Assert(err == nil, "encode")
	rt, _ := w.srv.Respond(context.Background(), protocol.TO2GetOVNextEntryMsgType, bytes.NewReader(body))
	if idx != 0 {
		verif.Assert(rt == protocol.ErrorMsgType, "an index outside the voucher's entries is answered with an error")
	} else {
		verif.Assert(rt == protocol.TO2OVNextEntryMsgType, "entry 0 is served")
	}
	verif.Reached("end")
}

// devmod messages with hostile counts and chunk positions
func VerifC10_Devmod() {
	verif.NoPanic()
	verif.Bound("C10 devmod", "nummodules in {-1,0,1,2,3,2^20,2^40,MaxInt64,MinInt64} then a modules chunk with Start, Len in {-1,0,1,2,3} and 0..2 one-byte names; allocation must stay below 1 MiB")
	d := &devmodOwnerModule{}
	n := vBigInts[verif.Choose("nummodules", len(vBigInts))]
	nb, err := cbor.Marshal(n)
	verif.Assert(err == nil, "encode")
	verif.ResetAlloc()
	err = d.HandleInfo(context.Background(), "nummodules", bytes.NewReader(nb))
	verif.Assert(verif.AllocBytes() <= 1<<20, "a claimed module count does not drive allocation beyond 1 MiB")
	if err != nil {
		verif.Reached("rejected count")
		return
	}
	small := []int{-1, 0, 1, 2, 3}
	chunk := serviceinfo.DevmodModulesChunk{Start: small[verif.Choose("start", 5)], Len: small[verif.Choose("len", 5)]}
	for i := 0; i < verif.Choose("nnames", 3); i++ {
		chunk.Modules = append(chunk.Modules, verif.String("name", 1))
	}
	cb, err := cbor.Marshal(chunk)
	verif.Assert(err == nil, "encode chunk")
	_ = d.HandleInfo(context.Background(), "modules", bytes.NewReader(cb))
	verif.Reached("end")
}

// a sequence of module-list chunks: the second chunk arrives when part of the list
// is already filled (the owner then re-bases its start index)
func VerifC10_DevmodChunkSequence() {
	verif.NoPanic()
	verif.Bound("C10 devmod sequence", "nummodules in {1,2,3}; first chunk in range (start 0..1, 1..2 one-byte names), second chunk with Start in {-1,0,1,2,3}, Len in {0,1,2,3} and Len one-byte names (or one name fewer)")
	d := &devmodOwnerModule{}
	n := 1 + verif.Choose("nummodules", 3)
	nb, err := cbor.Marshal(n)
	verif.Assert(err == nil, "encode")
	verif.Assert(d.HandleInfo(context.Background(), "nummodules", bytes.NewReader(nb)) == nil, "count accepted")
	mk := func(tag string, start, ln, names int) []byte {
		chunk := serviceinfo.DevmodModulesChunk{Start: start, Len: ln}
		for i := 0; i < names; i++ {
			chunk.Modules = append(chunk.Modules, verif.String("name"+tag, 1))
		}
		cb, err := cbor.Marshal(chunk)
		verif.Assert(err == nil, "encode chunk")
		return cb
	}
	k1 := 1 + verif.Choose("names1", 2)
	_ = d.HandleInfo(context.Background(), "modules", bytes.NewReader(mk("1", verif.Choose("start1", 2), k1, k1)))
	l2 := verif.Choose("len2", 4)
	names2 := l2
	if l2 > 0 && verif.Choose("short2", 2) == 1 {
		names2 = l2 - 1
	}
	err = d.HandleInfo(context.Background(), "modules", bytes.NewReader(mk("2", verif.Choose("start2", 5)-1, l2, names2)))
	if err == nil {
		verif.Assert(len(d.Modules) == n, "the module list keeps the announced length")
	}
	verif.Reached("end")
}

// one DeviceServiceInfo message with many entries whose key changes every entry:
// the owner service answers (it must not block on its own unchunking pipe)
func VerifC10_ManyServiceInfoKeys() {
	verif.NoPanic()
	verif.Bound("C10 many keys", "TO2.DeviceServiceInfo with n entries alternating devmod:active / devmod:os, n in {0,1,2,999,1000,1001,1002} (quick: {0,1,2,1001}); values symbolic in the first two entries; session after DeviceServiceInfoReady")
	verif.SetGhost("clock-concrete", 1)
	ns := []int{0, 1, 2, 1001}
	if verif.Tier() > 0 {
		ns = []int{0, 1, 2, 999, 1000, 1001, 1002}
	}
	n := ns[verif.Choose("n", len(ns))]
	c := vC08Setup()
	s := c.w.newSession("TA")
	c.fill(s, pTO2Ready, "A")
	var kvs []*serviceinfo.KV
	for i := 0; i < n; i++ {
		if i%2 == 0 {
			v := byte(0xf5)
			if i < 2 && verif.Bool("active") {
				v = 0xf4
			}
			kvs = append(kvs, &serviceinfo.KV{Key: "devmod:active", Val: []byte{v}})
		} else {
			val := []byte{0x61, 'o'}
			if i < 2 {
				val = []byte{0x61, verif.U8("os") & 0x7f}
			}
			kvs = append(kvs, &serviceinfo.KV{Key: "devmod:os", Val: val})
		}
	}
	body, err := cbor.Marshal(deviceServiceInfo{IsMoreServiceInfo: true, ServiceInfo: kvs})
	verif.Assert(err == nil, "encode")
	srv := c.h.TO2Responder.(*TO2Server)
	rt, _ := srv.Respond(c.w.TokenContext(context.Background(), "TA"), protocol.TO2DeviceServiceInfoMsgType, bytes.NewReader(body))
	verif.Assert(rt == protocol.TO2OwnerServiceInfoMsgType || rt == protocol.ErrorMsgType, "the owner service answers with OwnerServiceInfo or an error message")
	verif.Reached("end")
}

// an error message naming a protocol the handler does not serve
func VerifC10_ErrorMsgMissingResponder() {
	verif.NoPanic()
	verif.Bound("C10 error msg", "handler serving only TO0/TO1 (a rendezvous server) or only TO2 (an owner service); error message with PrevMsgType of each protocol family or unknown")
	w := newVWorld()
	h := fdohttp.Handler{Tokens: w}
	if verif.Choose("role", 2) == 0 {
		h.TO0Responder = &TO0Server{Session: w, RVBlobs: w}
		h.TO1Responder = &TO1Server{Session: w, RVBlobs: w}
	} else {
		h.TO2Responder = &TO2Server{Session: w, Modules: &vModules{w}, Vouchers: w, OwnerKeys: w}
	}
	prev := []uint8{11, 21, 31, 61, 0, 255}[verif.Choose("prev", 6)]
	body, err := cbor.Marshal(protocol.ErrorMessage{Code: 100, PrevMsgType: prev, ErrString: "e", Timestamp: 1})
	verif.Assert(err == nil, "encode")
	req := &nethttp.Request{Method: "POST", URL: &url.URL{Path: "/fdo/101/msg/255"}, Header: nethttp.Header{},
		Body: io.NopCloser(bytes.NewReader(body)), ContentLength: int64(len(body))}
	h.ServeHTTP(&vRecorder{hdr: nethttp.Header{}}, req)
	verif.Reached("end")
}

// framing: path, method, content length
func VerifC10_HandlerFraming() {
	verif.NoPanic()
	verif.Bound("C10 framing", "method POST/GET; path suffix: a served type, 256, -1, empty, 'x', '1/2', 3 arbitrary bytes; Content-Length -1, 0, actual, 65536, 2^62; MaxContentLength 0 or 10")
	c := vC08Setup()
	paths := []string{"60", "256", "-1", "", "x", "1/2", verif.String("rawpath", 3)}
	path := paths[verif.Choose("path", len(paths))]
	method := []string{"POST", "GET"}[verif.Choose("method", 2)]
	body := c.body(60, nil)
	cls := []int64{-1, 0, int64(len(body)), 65536, 1 << 62}
	cl := cls[verif.Choose("cl", len(cls))]
	if verif.Choose("maxcl", 2) == 1 {
		c.h.MaxContentLength = 10
	}
	req := &nethttp.Request{Method: method, URL: &url.URL{Path: "/fdo/101/msg/" + path}, Header: nethttp.Header{},
		Body: io.NopCloser(bytes.NewReader(body)), ContentLength: cl}
	rec := &vRecorder{hdr: nethttp.Header{}}
	c.h.ServeHTTP(rec, req)
	rt, _ := strconv.Atoi(rec.hdr.Get("Message-Type"))
	max := int64(65535)
	if c.h.MaxContentLength > 0 {
		max = c.h.MaxContentLength
	}
	if method == "POST" && path == "60" && (cl > max || cl < 0) {
		verif.Assert(rt == 255, "a request that is too large or has no length is answered with an error message")
		verif.Assert(c.w.count("NewToken") == 0 || c.w.count("Invalidate:T1") == 1, "and leaves no live session behind")
	}
	verif.Reached("end")
}

var vReqTypes = []uint8{10, 12, 20, 22, 30, 32, 60, 62, 64, 66, 68, 70}

// arbitrary raw bytes as the body of every request type, session in the natural predecessor profile
func VerifC10_ServerRawBytes() {
	verif.NoPanic()
	verif.Bound("C10 raw server", "each of the 12 request types with a body of arbitrary 0..2 (quick) / 0..3 (thorough) bytes, through the real HTTP handler; session profile = after the preceding message of that protocol")
	c := vC08Setup()
	t := vReqTypes[verif.Choose("type", len(vReqTypes))]
	profile := map[uint8]int{10: pNone, 12: pDI, 20: pNone, 22: pTO0, 30: pNone, 32: pTO1, 60: pNone, 62: pTO2Hello, 64: pTO2Hello, 66: pTO2Proved, 68: pTO2Ready, 70: pTO2Info}[t]
	hdr := nethttp.Header{}
	if profile != pNone {
		c.fill(c.w.newSession("TA"), profile, "A")
		hdr.Set("Authorization", "Bearer TA")
	}
	body := verif.Bytes("body", verif.Choose("n", 3+verif.Tier()))
	req := &nethttp.Request{Method: "POST", URL: &url.URL{Path: "/fdo/101/msg/" + strconv.Itoa(int(t))}, Header: hdr,
		Body: io.NopCloser(bytes.NewReader(body)), ContentLength: int64(len(body))}
	rec := &vRecorder{hdr: nethttp.Header{}}
	verif.ResetAlloc()
	c.h.ServeHTTP(rec, req)
	verif.Assert(verif.AllocBytes() <= 1<<20, "a tiny request body does not drive allocation beyond 1 MiB")
	verif.Reached("end")
}

// a transport that answers with a chosen type and arbitrary raw bytes
type vRawTransport struct {
	typ  uint8
	body []byte
	n    int
}

func (r *vRawTransport) Send(_ context.Context, msgType uint8, _ any, _ kex.Session) (uint8, io.ReadCloser, error) {
	r.n++
	if msgType == protocol.ErrorMsgType || r.n > 1 {
		return 0, nil, errCut
	}
	return r.typ, io.NopCloser(bytes.NewReader(r.body)), nil
}

// every client-side step on arbitrary raw response bytes
func VerifC10_ClientRawBytes() {
	verif.NoPanic()
	verif.Bound("C10 raw client", "each client request function (DI AppStart/SetHMAC, TO0 Hello/OwnerSign, TO1 HelloRV/ProveToRV, TO2 HelloDevice/GetOVNextEntry/ProveDevice/DeviceServiceInfoReady/DeviceServiceInfo/Done) with a response of the expected type, the error type or an unexpected type and a body of arbitrary 0..2 (quick) / 0..3 (thorough) bytes")
	step := verif.Choose("step", 12)
	expect := []uint8{11, 13, 21, 23, 31, 33, 61, 63, 65, 67, 69, 71}[step]
	typs := []uint8{expect, 255, 99}
	tr := &vRawTransport{typ: typs[verif.Choose("resptype", 3)], body: verif.Bytes("body", verif.Choose("n", 3+verif.Tier()))}
	ctx := contextWithErrMsg(context.Background())
	dev := &verif.ModelSigner{Pub: vcPub(vcP256, "dev")}
	secret := verif.Bytes("secret", 32)
	cfg := &TO2Config{Cred: DeviceCredential{Version: 101, DeviceInfo: "d"}, Key: dev, KeyExchange: kex.ECDH256Suite, CipherSuite: kex.A128GcmCipher,
		HmacSha256: vHmac256(secret), HmacSha384: vHmac384(secret), MaxServiceInfoSizeReceive: 1300}
	sess := &vSess{keyed: true}
	switch step {
	case 0:
		_, _ = appStart(ctx, tr, nil)
	case 1:
		_ = setHmac(ctx, tr, vHmac256(secret), &VoucherHeader{Version: 101})
	case 2:
		_, _ = (&TO0Client{}).hello(ctx, tr)
	case 3:
		w := vMkOwnerWorld(vcP256)
		cl := &TO0Client{Vouchers: w.st, OwnerKeys: w.st}
		_, _ = cl.ownerSign(ctx, tr, w.guid, 10, protocol.Nonce{}, nil)
	case 4:
		_, _ = helloRv(ctx, tr, cfg.Cred, dev, nil)
	case 5:
		_, _ = proveToRv(ctx, tr, cfg.Cred, protocol.Nonce{}, dev, nil)
	case 6:
		_, _, _, _ = sendHelloDevice(ctx, tr, cfg)
	case 7:
		_, _ = sendNextOVEntry(ctx, tr, 0)
	case 8:
		_, _, _ = proveDevice(ctx, tr, protocol.Nonce{}, vcPub(vcP256, "owner"), sess, cfg)
	case 9:
		_, _ = sendReadyServiceInfo(ctx, tr, protocol.Sha256Hash, nil, sess, cfg)
	case 10:
		_, _ = sendDeviceServiceInfo(ctx, tr, deviceServiceInfo{}, sess)
	case 11:
		_ = sendDone(ctx, tr, protocol.Nonce{}, protocol.Nonce{}, sess)
	}
	verif.Reached("end")
}

// SetupDevice as seen by the device: grammar of the owner's answer to ProveDevice,
// after an honest owner up to that point (loopback with the real responder).
func VerifC10_ClientSetupDevice() {
	verif.NoPanic()
	verif.Bound("C10 setupdevice", "honest TO2 up to ProveDevice against the real responder, then SetupDevice replaced: payload null / replacement owner key of kind P-256, P-384, RSA-2048, RSA-3072, RSA-4096, RSA-1024 (model) or an unparsable body; nonce echoed or not; signature symbolic")
	t := vMkTO2World(vcP256, false)
	shape := verif.Choose("shape", 8)
	t.loop.tamper = func(reqType, respType uint8, resp any) (uint8, any) {
		if reqType != protocol.TO2ProveDeviceMsgType || respType != protocol.TO2SetupDeviceMsgType {
			return respType, resp
		}
		orig := resp.(*cose.Sign1Tag[deviceSetup, []byte])
		var sd cose.Sign1Tag[deviceSetup, []byte]
		sd.Protected, sd.Unprotected = orig.Protected, cose.HeaderMap{}
		sd.Signature = verif.Bytes("sdsig", 64)
		if shape == 0 {
			return respType, &sd
		}
		p := orig.Payload.Val
		switch shape {
		case 1:
			p.Owner2Key = vwPublicKey(vcP384, vcPub(vcP384, "o2"))
		case 2:
			p.Owner2Key = vwPublicKey(vcRSA2048, vcPub(vcRSA2048, "o2"))
		case 3:
			p.Owner2Key = vwPublicKey(vcRSA3072, vcPub(vcRSA3072, "o2"))
		case 4:
			p.Owner2Key = protocol.PublicKey{Type: protocol.RsaPkcsKeyType, Encoding: protocol.X509KeyEnc, Body: vwMust(cbor.Marshal(append([]byte{verif.KindRSA4096}, verif.Bytes("n4096", 512)...)))}
		case 5:
			p.Owner2Key = protocol.PublicKey{Type: protocol.Secp256r1KeyType, Encoding: protocol.X509KeyEnc, Body: vwBstr(verif.Bytes("badbody", 2))}
		case 6:
			copy(p.NonceTO2SetupDv[:], verif.Bytes("othernonce", 16))
		case 7:
			p.Owner2Key = protocol.PublicKey{Type: protocol.RsaPkcsKeyType, Encoding: protocol.X509KeyEnc, Body: vwMust(cbor.Marshal(append([]byte{verif.KindRSA1024}, verif.Bytes("n1024", 128)...)))}
		}
		sd.Payload = cbor.NewByteWrap(p)
		return respType, &sd
	}
	_, _ = TO2(context.Background(), t.loop, nil, t.cfg)
	verif.Reached("end")
}
