//go:build verif

package fdo

import (
	"github.com/fido-device-onboard/go-fdo/cbor"
	"github.com/fido-device-onboard/go-fdo/internal/verif"
	"github.com/fido-device-onboard/go-fdo/kex"
	"github.com/fido-device-onboard/go-fdo/protocol"
	"github.com/fido-device-onboard/go-fdo/serviceinfo"
)

func vReenc[T any](what string, v T) {
	enc, err := cbor.Marshal(v)
	verif.Assert(err == nil, what+" encodes")
	var w T
	verif.Assert(cbor.Unmarshal(enc, &w) == nil, what+" decodes")
	back, err := cbor.Marshal(w)
	verif.Assert(err == nil && verif.BytesEq(back, enc), what+": encode(decode(encode(v))) == encode(v)")
	enc2, err := cbor.Marshal(v)
	verif.Assert(err == nil && verif.BytesEq(enc2, enc), what+": encoding is deterministic")
}

// FDO message structures populated with symbolic content: hashes, MACs and
// signatures computed over re-encoded structures are stable across transmission.
func VerifC11_MessagesRoundTrip() {
	verif.NoPanic()
	verif.Bound("C11 messages", "one structure per path: ownership voucher with 1..2 honest extensions (P-256/P-384/RSA-2048), voucher header, device credential (0..1 rendezvous directives), HelloDevice, OVNextEntry, ErrorMessage (with/without correlation id), DeviceServiceInfo / OwnerServiceInfo (0..2 entries), DeviceServiceInfoReady (with/without HMAC and size), Done/Done2; all leaves symbolic")
	var n16 [16]byte
	copy(n16[:], verif.Bytes("n16", 16))
	switch verif.Choose("msg", 10) {
	case 0:
		mk := verif.Choose("kind", 3)
		mfg := &verif.ModelSigner{Pub: vcPub(mk, "mfg")}
		v, _ := vwHonestVoucher(mk, mfg, 1+verif.Choose("next", 2), verif.Bytes("secret", 32))
		vReenc("Voucher", *v)
		vReenc("VoucherHeader", v.Header.Val)
		vReenc("voucher entry", v.Entries[0])
	case 1:
		c := DeviceCredential{Version: verif.U16("ver"), DeviceInfo: verif.String("info", verif.Choose("ninfo", 3)), GUID: protocol.GUID(n16),
			PublicKeyHash: protocol.Hash{Algorithm: protocol.Sha384Hash, Value: verif.Bytes("kh", 48)}}
		if verif.Bool("hasrv") {
			c.RvInfo = [][]protocol.RvInstruction{{{Variable: protocol.RvVar(verif.U8("var")), Value: verif.Bytes("rvval", 2)}}}
		}
		vReenc("DeviceCredential", c)
	case 2:
		vReenc("HelloDevice", helloDeviceMsg{MaxDeviceMessageSize: verif.U16("max"), GUID: protocol.GUID(n16), NonceTO2ProveOV: protocol.Nonce(n16),
			KexSuiteName: kex.ECDH256Suite, CipherSuite: kex.CipherSuiteID(verif.I64("cipher")), SigInfoA: sigInfo{Type: -7}})
	case 3:
		mfg := &verif.ModelSigner{Pub: vcPub(vcP256, "mfg")}
		v, _ := vwHonestVoucher(vcP256, mfg, 1, verif.Bytes("secret", 32))
		vReenc("OVNextEntry", ovEntry{OVEntryNum: int(verif.U8("num")), OVEntry: v.Entries[0]})
	case 4:
		e := protocol.ErrorMessage{Code: verif.U16("code"), PrevMsgType: verif.U8("prev"), ErrString: verif.String("es", verif.Choose("nes", 3)), Timestamp: verif.I64("ts")}
		if verif.Bool("hascorr") {
			x := uint(verif.U32("corr"))
			e.CorrelationID = &x
		}
		vReenc("ErrorMessage", e)
	case 5:
		var kvs []*serviceinfo.KV
		for i, n := 0, verif.Choose("nkv", 3); i < n; i++ {
			kvs = append(kvs, &serviceinfo.KV{Key: "m:" + verif.String("k", 1), Val: verif.Bytes("v", 1+i)})
		}
		vReenc("DeviceServiceInfo", deviceServiceInfo{IsMoreServiceInfo: verif.Bool("more"), ServiceInfo: kvs})
	case 6:
		var kvs []*serviceinfo.KV
		for i, n := 0, verif.Choose("nkv", 3); i < n; i++ {
			kvs = append(kvs, &serviceinfo.KV{Key: "m:" + verif.String("k", 1), Val: verif.Bytes("v", 1+i)})
		}
		vReenc("OwnerServiceInfo", ownerServiceInfo{IsMoreServiceInfo: verif.Bool("more"), IsDone: verif.Bool("done"), ServiceInfo: kvs})
	case 7:
		r := deviceServiceInfoReady{}
		if verif.Bool("hashmac") {
			r.Hmac = &protocol.Hmac{Algorithm: protocol.HmacSha256Hash, Value: verif.Bytes("hm", 32)}
		}
		if verif.Bool("hassize") {
			s := verif.U16("size")
			r.MaxOwnerServiceInfoSize = &s
		}
		vReenc("DeviceServiceInfoReady", r)
	case 8:
		vReenc("Done", doneMsg{NonceTO2ProveDv: protocol.Nonce(n16)})
		vReenc("Done2", done2Msg{NonceTO2SetupDv: protocol.Nonce(n16)})
	default:
		pk := vwPublicKey(verif.Choose("kind", 4), vcPub(verif.Choose("kind2", 4), "k"))
		vReenc("PublicKey", pk)
		vReenc("Hash", protocol.Hash{Algorithm: protocol.HashAlg(verif.I64("alg")), Value: verif.Bytes("hv", verif.Choose("nhv", 3))})
	}
	verif.Reached("end")
}
