//go:build verif

package fdo

import (
	"bytes"
	"context"
	"io"

	"github.com/fido-device-onboard/go-fdo/cbor"
	"github.com/fido-device-onboard/go-fdo/internal/verif"
	"github.com/fido-device-onboard/go-fdo/kex"
	"github.com/fido-device-onboard/go-fdo/protocol"
	"github.com/fido-device-onboard/go-fdo/serviceinfo"
)

// vSIRecorder is a Transport that records every DeviceServiceInfo message and
// answers with an empty OwnerServiceInfo.
type vSIRecorder struct {
	msgs  []deviceServiceInfo
	sizes []int
}

func (r *vSIRecorder) Send(_ context.Context, msgType uint8, msg any, _ kex.Session) (uint8, io.ReadCloser, error) {
	m := msg.(deviceServiceInfo)
	r.msgs = append(r.msgs, m)
	enc, err := cbor.Marshal(m)
	verif.Assert(err == nil, "harness: message encodes")
	r.sizes = append(r.sizes, len(enc))
	out, _ := cbor.Marshal(ownerServiceInfo{})
	return protocol.TO2OwnerServiceInfoMsgType, io.NopCloser(bytes.NewReader(out)), nil
}

// the device's real packing loop (exchangeServiceInfoRound): everything written is
// sent, in order, in messages that fit the MTU; what follows a yield starts a new
// message and is not left behind
func VerifC15_DevicePackingLoop() {
	verif.NoPanic()
	verif.Bound("C15b", "exchangeServiceInfoRound (real code) over a ChunkReader: message A (1..9 symbolic bytes), optional yield, message B (1..3 bytes); MTU budget every value 12..40 and 64 (all remainders 0..28 of the budget after A); buffered pipe; producer first")
	cr, uw := serviceinfo.NewChunkOutPipe(8)
	a := verif.Bytes("a", 1+verif.Choose("na", 9))
	b := verif.Bytes("b", 1+verif.Choose("nb", 3))
	mi := verif.Choose("mtu", 30)
	mtu := uint16(12 + mi)
	if mi == 29 {
		mtu = 64
	}
	yield := verif.Choose("yield", 2) == 1
	verif.Assert(uw.NextServiceInfo("m", "a") == nil, "NextServiceInfo a")
	_, err := uw.Write(a)
	verif.Assert(err == nil, "Write a")
	if yield {
		verif.Assert(uw.ForceNewMessage() == nil, "ForceNewMessage")
	}
	verif.Assert(uw.NextServiceInfo("m", "b") == nil, "NextServiceInfo b")
	_, err = uw.Write(b)
	verif.Assert(err == nil, "Write b")
	verif.Assert(uw.Close() == nil, "Close")
	rec := &vSIRecorder{}
	_, ownerIn := serviceinfo.NewChunkInPipe(8)
	_, _, err = exchangeServiceInfoRound(contextWithErrMsg(context.Background()), rec, mtu, cr, ownerIn, nil)
	verif.Assert(err == nil, "the round completes")
	var gotA, gotB []byte
	sawB := false
	for i, m := range rec.msgs {
		verif.Assert(rec.sizes[i] <= int(mtu)+5, "every DeviceServiceInfo message fits the budget (plus the 5 bytes of message overhead the caller reserved)")
		hasA, hasB := false, false
		for _, kv := range m.ServiceInfo {
			if kv.Key == "m:a" {
				verif.Assert(!sawB, "A before B")
				gotA = append(gotA, kv.Val...)
				hasA = true
			} else {
				gotB = append(gotB, kv.Val...)
				hasB, sawB = true, true
			}
		}
		if yield {
			verif.Assert(!(hasA && hasB), "what follows the yield is not in the same message as what precedes it")
		}
		verif.Assert(m.IsMoreServiceInfo == (i < len(rec.msgs)-1), "every message but the last announces more service info")
	}
	verif.Assert(verif.BytesEq(gotA, a) && verif.BytesEq(gotB, b), "everything written was sent, complete and in order, before the device stopped sending")
	verif.Reached("end")
}
