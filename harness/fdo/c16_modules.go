//go:build verif

package fdo

import (
	"context"
	"io"

	"github.com/fido-device-onboard/go-fdo/internal/verif"
	"github.com/fido-device-onboard/go-fdo/protocol"
	"github.com/fido-device-onboard/go-fdo/serviceinfo"
)

// ---- scripted owner modules ------------------------------------------------

// vOMsg is one message an owner module writes in a round.
type vOMsg struct {
	name string
	val  []byte
}

// vORound is what an owner module produces in one ProduceInfo call.
type vORound struct {
	msgs  []vOMsg
	block bool // IsMoreServiceInfo: the device may not answer yet
	final bool // report moduleDone in this round even though block is set
}

type vRecMsg struct {
	name string
	val  []byte
}

// vOwnerMod is a scripted owner module: it announces itself active, then plays
// its rounds; it records everything HandleInfo is given.
type vOwnerMod struct {
	name      string
	rounds    []vORound
	next      int
	got       []vRecMsg
	done      bool
	sentAll   []vOMsg // everything written so far, in order
	handleWhenNotCurrent bool
	sm        *vScriptSM
}

func (m *vOwnerMod) HandleInfo(ctx context.Context, name string, body io.Reader) error {
	if m.sm.cur < 0 || m.sm.cur >= len(m.sm.mods) || m.sm.mods[m.sm.cur] != m {
		m.handleWhenNotCurrent = true
	}
	b, err := io.ReadAll(body)
	if err != nil {
		return err
	}
	// consecutive fragments of one message are one stream
	if n := len(m.got); n > 0 && m.got[n-1].name == name && m.sm.lastHandleMod == m && m.sm.fragmentOpen {
		m.got[n-1].val = append(m.got[n-1].val, b...)
	} else {
		m.got = append(m.got, vRecMsg{name, b})
	}
	m.sm.lastHandleMod, m.sm.fragmentOpen = m, true
	return nil
}

func (m *vOwnerMod) ProduceInfo(ctx context.Context, p *serviceinfo.Producer) (bool, bool, error) {
	m.sm.produceCalls = append(m.sm.produceCalls, m.name)
	if m.next >= len(m.rounds) {
		m.done = true
		return false, true, nil
	}
	r := m.rounds[m.next]
	m.next++
	for _, x := range r.msgs {
		if err := p.WriteChunk(x.name, x.val); err != nil {
			return false, false, err
		}
		m.sentAll = append(m.sentAll, x)
	}
	last := m.next >= len(m.rounds)
	if last && r.final {
		m.done = true
		return r.block, true, nil
	}
	if last && !r.block {
		m.done = true
		return false, true, nil
	}
	return r.block, false, nil
}

// vScriptSM is the owner's module state machine over the scripted modules.
type vScriptSM struct {
	mods          []*vOwnerMod
	cur           int
	produceCalls  []string
	nextCalls     int
	lastHandleMod *vOwnerMod
	fragmentOpen  bool
}

// Like the repository's own state machines, it starts *before* the first module:
// the owner service calls NextModule once devmod has completed.
func (s *vScriptSM) Module(ctx context.Context) (string, serviceinfo.OwnerModule, error) {
	if s.cur < 0 || s.cur >= len(s.mods) {
		return "", nil, ErrNotFound
	}
	return s.mods[s.cur].name, s.mods[s.cur], nil
}
func (s *vScriptSM) NextModule(ctx context.Context) (bool, error) {
	s.nextCalls++
	s.cur++
	return s.cur < len(s.mods), nil
}
func (s *vScriptSM) CleanupModules(ctx context.Context) {}

// ---- recording device modules ----------------------------------------------

type vDevMod struct {
	name        string
	transitions []bool
	got         []vRecMsg
	wrote       []vRecMsg
	reply       map[string][]byte // message name -> reply written with respond("r")
	recvInactive bool
	yields      int
}

func (d *vDevMod) active() bool {
	return len(d.transitions) > 0 && d.transitions[len(d.transitions)-1]
}
func (d *vDevMod) Transition(a bool) error { d.transitions = append(d.transitions, a); return nil }
func (d *vDevMod) Receive(ctx context.Context, name string, body io.Reader, respond func(string) io.Writer, yield func()) error {
	if !d.active() {
		d.recvInactive = true
	}
	b, err := io.ReadAll(body)
	if err != nil {
		return err
	}
	d.got = append(d.got, vRecMsg{name, b})
	if rep, ok := d.reply[name]; ok {
		w := respond("r")
		if _, err := w.Write(rep); err != nil {
			return err
		}
		d.wrote = append(d.wrote, vRecMsg{"r", rep})
	}
	return nil
}
func (d *vDevMod) Yield(ctx context.Context, respond func(string) io.Writer, yield func()) error {
	d.yields++
	return nil
}

// vLoopT wraps vLoop and records the owner's reply flags of type-69 messages.
type vC16World struct {
	t   *vTO2World
	sm  *vScriptSM
	dev map[string]*vDevMod
}

func vCborTrue() []byte  { return []byte{0xf5} }
func vCborFalse() []byte { return []byte{0xf4} }

func vConcatRuns(in []vRecMsg) []vRecMsg {
	var out []vRecMsg
	for _, m := range in {
		if n := len(out); n > 0 && out[n-1].name == m.name {
			out[n-1].val = append(append([]byte{}, out[n-1].val...), m.val...)
			continue
		}
		out = append(out, vRecMsg{m.name, append([]byte{}, m.val...)})
	}
	return out
}

func vSameMsgs(a, b []vRecMsg) bool {
	if len(a) != len(b) {
		return false
	}
	ok := true
	for i := range a {
		if a[i].name != b[i].name {
			return false
		}
		ok = verif.And(ok, verif.BytesEq(a[i].val, b[i].val))
	}
	return ok
}

func vMkC16(kind int, ownerMTU, devMTU uint16) *vC16World {
	t := vMkTO2World(kind, false)
	w := &vC16World{t: t, sm: &vScriptSM{cur: -1}, dev: map[string]*vDevMod{}}
	t.loop.srv.Modules = w.sm
	if ownerMTU != 0 {
		// what the owner is willing to receive = the device's send MTU
		t.loop.srv.MaxDeviceServiceInfoSize = func(context.Context, Voucher) (uint16, error) { return ownerMTU, nil }
	}
	t.cfg.MaxServiceInfoSizeReceive = devMTU
	t.cfg.DeviceModules = map[string]serviceinfo.DeviceModule{}
	return w
}

func (w *vC16World) addOwner(name string, rounds ...vORound) *vOwnerMod {
	m := &vOwnerMod{name: name, rounds: rounds, sm: w.sm}
	w.sm.mods = append(w.sm.mods, m)
	return m
}
func (w *vC16World) addDevice(name string, reply map[string][]byte) *vDevMod {
	d := &vDevMod{name: name, reply: reply}
	w.dev[name] = d
	w.t.cfg.DeviceModules[name] = d
	return d
}

func (w *vC16World) checkDevmod() {
	s := w.t.c.w.sessions["T1"]
	verif.Assert(s != nil && s.devmod != nil, "the owner stored the device's devmod")
	verif.Assert(verif.DeepEq(*s.devmod, w.t.cfg.Devmod), "the stored devmod descriptors are exactly the device's")
	verif.Assert(s.devmodComplete, "devmod was completed")
	want := map[string]bool{"devmod": true}
	for k := range w.t.cfg.DeviceModules {
		want[k] = true
	}
	verif.Assert(len(s.devmodModules) == len(want), "the stored module list has exactly one entry per device module (plus devmod)")
	seen := map[string]bool{}
	for _, n := range s.devmodModules {
		verif.Assert(want[n], "every stored module name is a device module")
		verif.Assert(!seen[n], "no module name is stored twice")
		seen[n] = true
	}
}

// doneTiming: Done (70) is sent exactly once, as the last request, immediately after
// the reply in which the last owner module completed.
func (w *vC16World) checkDone() {
	sent := w.t.loop.sent
	n70 := 0
	for i, m := range sent {
		if m == protocol.TO2DoneMsgType {
			n70++
			verif.Assert(i == len(sent)-1, "Done is the last message of the run")
		}
	}
	verif.Assert(n70 == 1, "Done is sent exactly once")
	for _, m := range w.sm.mods {
		verif.Assert(m.done, "every owner module ran to completion before Done")
		verif.Assert(!m.handleWhenNotCurrent, "an owner module is handed device messages only while it is the current module")
	}
	verif.Assert(w.sm.nextCalls == len(w.sm.mods)+1, "the owner advanced once past devmod and once past each module")
	// modules were asked in order, one at a time
	idx := 0
	for _, name := range w.sm.produceCalls {
		for idx < len(w.sm.mods) && w.sm.mods[idx].name != name {
			idx++
		}
		verif.Assert(idx < len(w.sm.mods), "owner modules produce in their configured order, never going back")
	}
}

// A complete TO2 with scripted owner modules and recording device modules.
func VerifC16_ModuleScript() {
	verif.NoPanic()
	verif.SetGhost("clock-concrete", 1)
	verif.Bound("C16 script", "P-256; owner modules: A (known to the device; activation round, then 1..2 rounds: messages x (3 symbolic bytes) and y (2) in the first, x in the second; optional IsMoreServiceInfo block after the first), then U (unknown to the device), optionally E (known; activation and one message in the round in which it reports completion), then B (known; one message whose device reply of {1,40} (quick) / {1,23,24,40..45,80,120} (thorough) symbolic bytes spans several device messages at the small MTU; optionally a last message sent in the round in which it reports completion, with or without asking to block the peer); the device also has module Z that the owner never activates; device send MTU in {64, 1300}; owner send MTU in {64, 1300}; one cooperative schedule")
	devSend := []uint16{64, 1300}[verif.Choose("devmtu", 2)]
	ownSend := []uint16{64, 1300}[verif.Choose("ownmtu", 2)]
	w := vMkC16(vcP256, devSend, ownSend)

	// module A: scripted
	nr := 1 + verif.Choose("roundsA", 2)
	var roundsA []vORound
	roundsA = append(roundsA, vORound{msgs: []vOMsg{{"active", vCborTrue()}}})
	for r := 0; r < nr; r++ {
		var rd vORound
		nm := 2 - r
		for i := 0; i < nm; i++ {
			name := []string{"x", "y"}[i]
			rd.msgs = append(rd.msgs, vOMsg{name, verif.Bytes("a", 3-i)})
		}
		if r == 0 && nr == 2 {
			rd.block = verif.Choose("blockA", 2) == 1
		}
		roundsA = append(roundsA, rd)
	}
	// a module reports completion only in a round after its last messages, when
	// the device's answers to them have arrived (as the FSIM owner modules do)
	roundsA = append(roundsA, vORound{})
	A := w.addOwner("A", roundsA...)
	U := w.addOwner("U", vORound{msgs: []vOMsg{{"active", vCborTrue()}}}, vORound{})
	// module E (known to the device) sends its activation and one message and reports completion in
	// the same round: the device's activation answer arrives when the next module is already current
	var E *vOwnerMod
	var dE *vDevMod
	if verif.Choose("withE", 2) == 1 {
		E = w.addOwner("E", vORound{msgs: []vOMsg{{"active", vCborTrue()}, {"e", verif.Bytes("e", 2)}}, final: true})
		dE = w.addDevice("E", nil)
	}
	replyLens := []int{1, 40}
	if verif.Tier() > 0 {
		replyLens = []int{1, 23, 24, 40, 41, 42, 43, 44, 45, 80, 120}
	}
	replyLen := replyLens[verif.Choose("replylen", len(replyLens))]
	// the last module may finish with a last message, and may (wrongly but harmlessly) ask to block the peer while finishing
	lastB := vORound{}
	if verif.Choose("lastmsgB", 2) == 1 {
		lastB = vORound{msgs: []vOMsg{{"z", verif.Bytes("z", 2)}}, block: verif.Choose("lastblockB", 2) == 1, final: true}
	}
	B := w.addOwner("B", vORound{msgs: []vOMsg{{"active", vCborTrue()}, {"q", verif.Bytes("q", 2)}}}, lastB)
	dA := w.addDevice("A", map[string][]byte{"x": verif.Bytes("rx", 2)})
	dB := w.addDevice("B", map[string][]byte{"q": verif.Bytes("rq", replyLen)})
	dZ := w.addDevice("Z", nil)

	cred, err := TO2(context.Background(), w.t.loop, nil, w.t.cfg)
	verif.Assert(err == nil && cred != nil, "honest TO2 with modules succeeds")
	w.checkDevmod()
	w.checkDone()
	verif.Assert(w.t.loop.maxReq68 <= int(devSend), "every DeviceServiceInfo message fits the size the owner announced")
	verif.Assert(w.t.loop.maxResp69 <= int(ownSend), "every OwnerServiceInfo message fits the size the device announced")

	// owner -> device: complete, in order, exactly once (consecutive equal names are one stream)
	var sentA []vRecMsg
	for _, m := range A.sentAll[1:] {
		sentA = append(sentA, vRecMsg{m.name, m.val})
	}
	verif.Assert(vSameMsgs(vConcatRuns(sentA), vConcatRuns(dA.got)), "device module A received exactly the bytes owner module A wrote, in order, once")
	verif.Assert(len(dA.transitions) == 1 && dA.transitions[0], "module A was activated exactly once")
	verif.Assert(!dA.recvInactive && !dB.recvInactive, "no module received a message before it was activated")
	var sentB []vRecMsg
	for _, m := range B.sentAll[1:] {
		sentB = append(sentB, vRecMsg{m.name, m.val})
	}
	verif.Assert(vSameMsgs(vConcatRuns(sentB), vConcatRuns(dB.got)), "device module B received exactly owner module B's messages, including one sent together with IsDone")

	// device -> owner
	wantA := []vRecMsg{{"active", vCborTrue()}}
	wantA = append(wantA, dA.wrote...)
	verif.Assert(vSameMsgs(vConcatRuns(wantA), vConcatRuns(A.got)), "owner module A received the activation answer and exactly the bytes device module A wrote")
	wantB := []vRecMsg{{"active", vCborTrue()}}
	wantB = append(wantB, dB.wrote...)
	if E == nil {
		verif.Assert(vSameMsgs(vConcatRuns(wantB), vConcatRuns(B.got)), "owner module B received the device's reply complete, in order, once, although it spans several messages")
	}

	if E != nil {
		verif.Assert(vSameMsgs([]vRecMsg{{"e", E.sentAll[1].val}}, vConcatRuns(dE.got)), "device module E received exactly owner module E's message (and no other module's)")
		verif.Assert(len(dE.transitions) == 1 && dE.transitions[0], "module E was activated exactly once")
	}
	// unknown module answers inactive; never-activated module sees nothing
	if E == nil {
		verif.Assert(vSameMsgs([]vRecMsg{{"active", vCborFalse()}}, U.got), "a module unknown to the device answers active=false and nothing else")
	}
	// (with E, the device's late answers shift by one module at the owner - observed behaviour, see DESIGN.md -
	// so what U and B receive from the device is not asserted in that variant)
	verif.Assert(len(dZ.transitions) == 0 && len(dZ.got) == 0 && dZ.yields == 0, "a device module the owner never activated is never called")
	verif.Reached("end")
}

// devmod with many module names at small MTUs: the list is split into several
// devmod:modules chunks over several protocol messages and reassembled.
func VerifC16_DevmodManyModules() {
	verif.NoPanic()
	verif.SetGhost("clock-concrete", 1)
	verif.Bound("C16 devmod", "P-256; {0,1,3,6,9} (quick) / 0..9,12,16 (thorough) device modules with names of 1..16 bytes, so that the list needs one, two or more devmod:modules chunks; device send MTU in {64, 72, 80, 100, 1300}; descriptors with and without the optional fields (serial, path separator, MUD URL); one owner module finishing immediately; one cooperative schedule")
	counts := []int{0, 1, 3, 6, 9}
	if verif.Tier() > 0 {
		counts = []int{0, 1, 2, 3, 4, 5, 6, 7, 8, 9, 12, 16}
	}
	n := counts[verif.Choose("nmods", len(counts))]
	mtu := []uint16{64, 72, 80, 100, 1300}[verif.Choose("devmtu", 5)]
	w := vMkC16(vcP256, mtu, 1300)
	names := []string{"a", "fdo.download", "m3", "fdo.upload", "x", "fdo.command", "b7", "fido.wget", "q", "vendor.module-10", "k", "vendor.module-12", "mm", "nnn", "oooo", "ppppp"}
	for i := 0; i < n; i++ {
		w.addDevice(names[i], nil)
	}
	if verif.Choose("optional", 2) == 1 {
		w.t.cfg.Devmod.Serial = verif.Bytes("sn", 2)
		w.t.cfg.Devmod.PathSep = ";"
		w.t.cfg.Devmod.MudURL = "u"
	}
	w.addOwner("O")
	cred, err := TO2(context.Background(), w.t.loop, nil, w.t.cfg)
	if err != nil {
		verif.Note("TO2 error: " + err.Error())
	}
	verif.Assert(err == nil && cred != nil, "honest TO2 succeeds whatever the number of device modules and the MTU")
	w.checkDevmod()
	w.checkDone()
	verif.Assert(w.t.loop.maxReq68 <= int(mtu), "every DeviceServiceInfo message fits the size the owner announced")
	verif.Reached("end")
}


// a devmod:modules chunk that fills a DeviceServiceInfo message exactly (followed by
// the forced break before the next chunk) does not stall the exchange
func VerifC16_DevmodExactFill() {
	verif.NoPanic()
	verif.SetGhost("clock-concrete", 1)
	verif.Bound("C16 exact fill", "P-256; 24..26 device modules with 65-byte names at the default MTU 1300, the 19th name 63..67 bytes long, so that the first module chunk is 2 below / 1 below / exactly / 1 above / 2 above what fits one message; one owner module finishing immediately")
	n := 24 + verif.Choose("nmods", 3)
	// the 19th name is 65+d bytes long: the first module chunk is then MTU-5+d bytes,
	// i.e. 2 below, 1 below, exactly at, and above what fits one message
	d := verif.Choose("delta", 5) - 2
	w := vMkC16(vcP256, 1300, 1300)
	for i := 0; i < n; i++ {
		name := "m" + string(rune('a'+i/10)) + string(rune('0'+i%10))
		l := 65
		if i == 18 {
			l += d
		}
		for len(name) < l {
			name += "x"
		}
		w.addDevice(name, nil)
	}
	w.addOwner("O")
	cred, err := TO2(context.Background(), w.t.loop, nil, w.t.cfg)
	verif.Assert(err == nil && cred != nil, "honest TO2 succeeds when a module chunk fills a message exactly")
	w.checkDevmod()
	w.checkDone()
	verif.Assert(len(w.t.loop.sent) < 40, "the exchange does not degenerate into empty round trips")
	verif.Reached("end")
}
