//go:build verif

package fdo

import (
	"context"
	"crypto"
	"crypto/x509"
	"time"

	"github.com/fido-device-onboard/go-fdo/cose"
	"github.com/fido-device-onboard/go-fdo/kex"
	"github.com/fido-device-onboard/go-fdo/protocol"
	"github.com/fido-device-onboard/go-fdo/serviceinfo"
)

// vState is one in-memory backend for every state interface of the servers.
// Each optional value has a presence flag so that "absent" is distinguishable;
// every effect is recorded.
type vState struct {
	// DI
	devChain []*x509.Certificate
	ovh      *VoucherHeader
	// TO0 / TO1
	to0Nonce, to1Nonce       *protocol.Nonce
	// TO2
	guid, replGUID           *protocol.GUID
	rvInfo                   [][]protocol.RvInstruction
	hasRvInfo                bool
	replHmac                 *protocol.Hmac
	xSuite                   kex.Suite
	xSess                    kex.Session
	proveNonce, setupNonce   *protocol.Nonce
	mtu                      *uint16
	devmod                   *serviceinfo.Devmod
	devmodModules            []string
	devmodComplete           bool
	// persistent
	vouchers map[protocol.GUID]*Voucher
	blobs    map[protocol.GUID]*vBlob
	ownerKeys map[protocol.KeyType]crypto.Signer
	// effect log
	log []string
	setRVBlobCalls int
	lastBlob  *vBlob
	addVoucherCalls, replaceVoucherCalls int
}

type vBlob struct {
	ov   *Voucher
	to1d *cose.Sign1[protocol.To1d, []byte]
	exp  time.Time
}

func newVState() *vState {
	return &vState{vouchers: map[protocol.GUID]*Voucher{}, blobs: map[protocol.GUID]*vBlob{}, ownerKeys: map[protocol.KeyType]crypto.Signer{}}
}

func (s *vState) SetDeviceCertChain(_ context.Context, c []*x509.Certificate) error { s.devChain = c; return nil }
func (s *vState) DeviceCertChain(context.Context) ([]*x509.Certificate, error) {
	if s.devChain == nil {
		return nil, ErrNotFound
	}
	return s.devChain, nil
}
func (s *vState) SetIncompleteVoucherHeader(_ context.Context, h *VoucherHeader) error { s.ovh = h; return nil }
func (s *vState) IncompleteVoucherHeader(context.Context) (*VoucherHeader, error) {
	if s.ovh == nil {
		return nil, ErrNotFound
	}
	return s.ovh, nil
}

func (s *vState) SetTO0SignNonce(_ context.Context, n protocol.Nonce) error { s.to0Nonce = &n; return nil }
func (s *vState) TO0SignNonce(context.Context) (protocol.Nonce, error) {
	if s.to0Nonce == nil {
		return protocol.Nonce{}, ErrNotFound
	}
	return *s.to0Nonce, nil
}
func (s *vState) SetTO1ProofNonce(_ context.Context, n protocol.Nonce) error { s.to1Nonce = &n; return nil }
func (s *vState) TO1ProofNonce(context.Context) (protocol.Nonce, error) {
	if s.to1Nonce == nil {
		return protocol.Nonce{}, ErrNotFound
	}
	return *s.to1Nonce, nil
}

func (s *vState) SetGUID(_ context.Context, g protocol.GUID) error { s.guid = &g; return nil }
func (s *vState) GUID(context.Context) (protocol.GUID, error) {
	if s.guid == nil {
		return protocol.GUID{}, ErrNotFound
	}
	return *s.guid, nil
}
func (s *vState) SetRvInfo(_ context.Context, r [][]protocol.RvInstruction) error {
	s.rvInfo, s.hasRvInfo = r, true
	return nil
}
func (s *vState) RvInfo(context.Context) ([][]protocol.RvInstruction, error) {
	if !s.hasRvInfo {
		return nil, ErrNotFound
	}
	return s.rvInfo, nil
}
func (s *vState) SetReplacementGUID(_ context.Context, g protocol.GUID) error { s.replGUID = &g; return nil }
func (s *vState) ReplacementGUID(context.Context) (protocol.GUID, error) {
	if s.replGUID == nil {
		return protocol.GUID{}, ErrNotFound
	}
	return *s.replGUID, nil
}
func (s *vState) SetReplacementHmac(_ context.Context, h protocol.Hmac) error { s.replHmac = &h; return nil }
func (s *vState) ReplacementHmac(context.Context) (protocol.Hmac, error) {
	if s.replHmac == nil {
		return protocol.Hmac{}, ErrNotFound
	}
	return *s.replHmac, nil
}
func (s *vState) SetXSession(_ context.Context, suite kex.Suite, sess kex.Session) error {
	s.xSuite, s.xSess = suite, sess
	s.log = append(s.log, "SetXSession")
	return nil
}
func (s *vState) XSession(context.Context) (kex.Suite, kex.Session, error) {
	if s.xSess == nil {
		return "", nil, ErrNotFound
	}
	return s.xSuite, s.xSess, nil
}
func (s *vState) SetProveDeviceNonce(_ context.Context, n protocol.Nonce) error { s.proveNonce = &n; return nil }
func (s *vState) ProveDeviceNonce(context.Context) (protocol.Nonce, error) {
	if s.proveNonce == nil {
		return protocol.Nonce{}, ErrNotFound
	}
	return *s.proveNonce, nil
}
func (s *vState) SetSetupDeviceNonce(_ context.Context, n protocol.Nonce) error { s.setupNonce = &n; return nil }
func (s *vState) SetupDeviceNonce(context.Context) (protocol.Nonce, error) {
	if s.setupNonce == nil {
		return protocol.Nonce{}, ErrNotFound
	}
	return *s.setupNonce, nil
}
func (s *vState) SetMTU(_ context.Context, m uint16) error { s.mtu = &m; return nil }
func (s *vState) MTU(context.Context) (uint16, error) {
	if s.mtu == nil {
		return 0, ErrNotFound
	}
	return *s.mtu, nil
}
func (s *vState) SetDevmod(_ context.Context, d serviceinfo.Devmod, modules []string, complete bool) error {
	s.devmod, s.devmodModules, s.devmodComplete = &d, modules, complete
	return nil
}
func (s *vState) Devmod(context.Context) (serviceinfo.Devmod, []string, bool, error) {
	if s.devmod == nil {
		return serviceinfo.Devmod{}, nil, false, ErrNotFound
	}
	return *s.devmod, s.devmodModules, s.devmodComplete, nil
}

func (s *vState) SetRVBlob(_ context.Context, ov *Voucher, to1d *cose.Sign1[protocol.To1d, []byte], exp time.Time) error {
	b := &vBlob{ov: ov, to1d: to1d, exp: exp}
	s.blobs[ov.Header.Val.GUID] = b
	s.lastBlob = b
	s.setRVBlobCalls++
	s.log = append(s.log, "SetRVBlob")
	return nil
}
func (s *vState) RVBlob(_ context.Context, g protocol.GUID) (*cose.Sign1[protocol.To1d, []byte], *Voucher, error) {
	b, ok := s.blobs[g]
	if !ok {
		return nil, nil, ErrNotFound
	}
	return b.to1d, b.ov, nil
}

func (s *vState) OwnerKey(_ context.Context, kt protocol.KeyType, rsaBits int) (crypto.Signer, []*x509.Certificate, error) {
	k, ok := s.ownerKeys[kt]
	if !ok {
		return nil, nil, ErrNotFound
	}
	return k, nil, nil
}

func (s *vState) AddVoucher(_ context.Context, ov *Voucher) error {
	s.vouchers[ov.Header.Val.GUID] = ov
	s.addVoucherCalls++
	s.log = append(s.log, "AddVoucher")
	return nil
}
func (s *vState) Voucher(_ context.Context, g protocol.GUID) (*Voucher, error) {
	v, ok := s.vouchers[g]
	if !ok {
		return nil, ErrNotFound
	}
	return v, nil
}
func (s *vState) ReplaceVoucher(_ context.Context, g protocol.GUID, ov *Voucher) error {
	delete(s.vouchers, g)
	s.vouchers[ov.Header.Val.GUID] = ov
	s.replaceVoucherCalls++
	s.log = append(s.log, "ReplaceVoucher")
	return nil
}
func (s *vState) RemoveVoucher(_ context.Context, g protocol.GUID) (*Voucher, error) {
	v, ok := s.vouchers[g]
	if !ok {
		return nil, ErrNotFound
	}
	delete(s.vouchers, g)
	return v, nil
}
