//go:build verif

package fdo

import "github.com/fido-device-onboard/go-fdo/internal/verif"

// vRun runs f. With nopanic the harness is in NoPanic mode and a panic of f is a
// violation (C10); otherwise the panic is caught and reported as "not accepted".
func vRun(nopanic bool, f func()) (panicked bool) {
	if nopanic {
		verif.NoPanic()
		f()
		return false
	}
	p, _ := verif.Caught(f)
	return p
}
