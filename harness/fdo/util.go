//go:build verif

package fdo

import (
	"crypto/hmac"
	"crypto/sha256"
	"crypto/sha512"
	"hash"

	"github.com/fido-device-onboard/go-fdo/internal/verif"
)

func vHmac256(secret []byte) hash.Hash { return hmac.New(sha256.New, secret) }
func vHmac384(secret []byte) hash.Hash { return hmac.New(sha512.New384, secret) }

// vRun runs f. With nopanic the harness is in NoPanic mode and a panic of f is a
// violation (C10); otherwise the panic is caught and reported as "not accepted".
func vRun(nopanic bool, f func()) (panicked bool) {
	if nopanic {
		verif.NoPanic()
		f()
		return false
	}
	p, _ := verif.Caught(f)
	return p
}
