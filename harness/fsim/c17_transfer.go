//go:build verif

package fsim

import (
	"bytes"
	"context"
	"io"
	"io/fs"
	"strings"
	"time"

	"github.com/fido-device-onboard/go-fdo/cbor"
	"github.com/fido-device-onboard/go-fdo/internal/verif"
	"github.com/fido-device-onboard/go-fdo/serviceinfo"
)

// ---- a sequential tunnel between an owner module and a device module -----------
//
// One "round" = the owner module produces service info into a Producer of the
// given MTU, the (possibly tampered) KVs are handed to the device module the way
// the device's unchunker does it (consecutive equal keys are one stream), and the
// device's answers are handed back to the owner module.

type vKV struct {
	name string
	val  []byte
}

type vTunnel struct {
	owner     serviceinfo.OwnerModule
	device    serviceinfo.DeviceModule
	modName   string
	mtu       uint16
	tamper    func(name string, val []byte) []byte // applied to owner->device values (nil: none)
	tamperUp  func(name string, val []byte) []byte // applied to device->owner values
	toDevice  []vKV // everything delivered to the device (after tampering), for inspection
	fromDev   []vKV
	ownerErr  error
	deviceErr error
	ownerDone bool
	rounds    int
	maxKVSize int
	skipTransition bool // the device module is already active (a later transfer in the same session)
}

type vRespBuf struct {
	t    *vTunnel
	name string
	buf  bytes.Buffer
}

func (t *vTunnel) round() {
	p := serviceinfo.NewProducer(t.modName, t.mtu)
	_, done, err := t.owner.ProduceInfo(context.Background(), p)
	if err != nil {
		t.ownerErr = err
		return
	}
	t.ownerDone = done
	var pending []*vRespBuf
	respond := func(name string) io.Writer {
		r := &vRespBuf{t: t, name: name}
		pending = append(pending, r)
		return &r.buf
	}
	kvs := p.ServiceInfo()
	if sz := serviceinfo.ArraySizeCBOR(kvs); sz > int64(t.mtu) {
		verif.Fail("an owner module's service info fits the MTU it was given")
	}
	// group consecutive equal keys into one stream
	for i := 0; i < len(kvs); {
		key := kvs[i].Key
		var stream []byte
		j := i
		for ; j < len(kvs) && kvs[j].Key == key; j++ {
			v := kvs[j].Val
			name := strings.TrimPrefix(key, t.modName+":")
			if t.tamper != nil {
				v = t.tamper(name, v)
			}
			t.toDevice = append(t.toDevice, vKV{name, v})
			stream = append(stream, v...)
		}
		name := strings.TrimPrefix(key, t.modName+":")
		i = j
		if name == "active" {
			var a bool
			if cbor.Unmarshal(stream, &a) == nil {
				if !t.skipTransition {
					_ = t.device.Transition(a)
				}
				pending = append(pending, &vRespBuf{t: t, name: "active"})
				pending[len(pending)-1].buf.Write([]byte{0xf5})
			}
			continue
		}
		if err := t.device.Receive(context.Background(), name, bytes.NewReader(stream), respond, func() {}); err != nil {
			t.deviceErr = err
			return
		}
	}
	for _, r := range pending {
		v := r.buf.Bytes()
		if t.tamperUp != nil {
			v = t.tamperUp(r.name, v)
		}
		t.fromDev = append(t.fromDev, vKV{r.name, v})
		if err := t.owner.HandleInfo(context.Background(), r.name, bytes.NewReader(v)); err != nil {
			t.ownerErr = err
			return
		}
	}
}

func (t *vTunnel) run(maxRounds int) {
	for t.rounds = 0; t.rounds < maxRounds; t.rounds++ {
		t.round()
		if t.ownerErr != nil || t.deviceErr != nil || t.ownerDone {
			return
		}
	}
}

func (t *vTunnel) lastDone() (int64, bool) {
	for i := len(t.fromDev) - 1; i >= 0; i-- {
		if t.fromDev[i].name == "done" {
			var n int64
			if cbor.Unmarshal(t.fromDev[i].val, &n) == nil {
				return n, true
			}
		}
	}
	return 0, false
}

// ---- download ----------------------------------------------------------------

func vDownload(tamperKind int) {
	verif.NoPanic()
	verif.FSReset()
	sizes := []int{1, 2, 5}
	chunks := []int{1, 2, 3, 0, -1}
	mtus := []uint16{192, 256, 1300}
	if verif.Tier() > 0 {
		sizes = []int{1, 2, 3, 4, 5, 6, 9}
		chunks = []int{1, 2, 3, 4, 5, 1014, 0, -1}
		mtus = []uint16{176, 192, 200, 256, 1300, 65535}
	}
	size := sizes[verif.Choose("size", len(sizes))]
	chunk := chunks[verif.Choose("chunksize", len(chunks))]
	mtu := mtus[verif.Choose("mtu", len(mtus))]
	content := verif.Bytes("content", size)
	owner := &DownloadContents[*bytes.Reader]{Name: "f.bin", Contents: bytes.NewReader(content), MustDownload: true, ChunkSize: chunk}
	device := &Download{NameToPath: func(n string) string { return "/dst/" + n }}
	t := &vTunnel{owner: owner, device: device, modName: "fdo.download", mtu: mtu}
	flipped := false
	switch tamperKind {
	case 1: // one data byte altered in transit (first byte of a chunk's payload)
		t.tamper = func(name string, v []byte) []byte {
			if name == "data" && !flipped && len(v) >= 2 {
				flipped = true
				w := append([]byte{}, v...)
				w[len(w)-1] ^= 1 + verif.U8("flip")%255
				return w
			}
			return v
		}
	case 2: // announced digest altered: another 48 bytes, or truncated / extended
		t.tamper = func(name string, v []byte) []byte {
			if name != "sha-384" {
				return v
			}
			flipped = true
			switch verif.Choose("digestmode", 3) {
			case 0:
				other := verif.Bytes("otherdigest", 48)
				verif.Assume(!verif.BytesEq(other, v[2:]))
				return append([]byte{0x58, 48}, other...)
			case 1:
				return append([]byte{0x58, 47}, v[2:49]...)
			}
			return append(append([]byte{0x58, 49}, v[2:]...), verif.U8("extra"))
		}
	case 3: // announced length altered
		t.tamper = func(name string, v []byte) []byte {
			if name != "length" {
				return v
			}
			l := verif.U8("otherlen")
			verif.Assume(l < 24 && int(l) != size)
			flipped = true
			return []byte{l}
		}
	}
	t.run(size + 8)
	f, exists := verif.FSFile("/dst/f.bin")
	done, hasDone := t.lastDone()
	if tamperKind == 0 {
		if t.ownerErr != nil {
			verif.Note("owner error: " + t.ownerErr.Error())
		}
		if t.deviceErr != nil {
			verif.Note("device error: " + t.deviceErr.Error())
		}
		verif.Assert(t.ownerErr == nil && t.deviceErr == nil, "an honest download runs without error")
		verif.Assert(t.ownerDone, "and completes")
		verif.Assert(exists && verif.BytesEq(f, content), "the file arrives bit-identical under the announced name")
		verif.Assert(hasDone && done == int64(size), "the device reports the full length")
		verif.Assert(verif.FSCount() == 1, "no temporary file is left behind")
		verif.Reached("honest")
		return
	}
	verif.Assume(flipped)
	if tamperKind == 3 {
		// a larger announced length just never completes; a smaller one must fail
		if exists {
			verif.Assert(verif.BytesEq(f, content), "a file that appears at the destination is the announced file")
		}
	} else {
		verif.Assert(!exists, "if data or digest do not match what was announced, no file appears at the destination")
		verif.Assert(!(hasDone && done >= 0), "and the device does not report success")
	}
	verif.Assert(!(t.ownerDone && t.ownerErr == nil) || (exists && verif.BytesEq(f, content)), "the owner module completes successfully only if the identical file was delivered")
	verif.Reached("tampered")
}

func VerifC17_DownloadHonest() {
	verif.Bound("C17 download", "file size {1,2,5} (quick) / {1..6,9} (thorough) symbolic bytes; owner chunk size {1,2,3,default,max} (+4,5,1014); MTU {192,256,1300} (+176,200,65535; below ~170 the module's announcement does not fit one message and it fails with an error); in-memory file model; sequential tunnel (owner round, device, answers)")
	vDownload(0)
}
func VerifC17_DownloadDataCorrupted() {
	verif.Bound("C17 download data", "as download; one data byte altered in transit by any non-zero difference")
	vDownload(1)
}
func VerifC17_DownloadDigestCorrupted() {
	verif.Bound("C17 download digest", "as download; the announced SHA-384 replaced by any other 48 bytes, truncated to 47 or extended to 49 bytes")
	vDownload(2)
}
func VerifC17_DownloadLengthCorrupted() {
	verif.Bound("C17 download length", "as download; the announced length replaced by any other value 0..23")
	vDownload(3)
}

// ---- upload ------------------------------------------------------------------

type vMemFS struct {
	name string
	data []byte
}
type vMemFile struct {
	fs  *vMemFS
	pos int
}
type vMemInfo struct{ fs *vMemFS }

func (m *vMemFS) Open(name string) (fs.File, error) {
	if name != m.name {
		return nil, fs.ErrNotExist
	}
	return &vMemFile{fs: m}, nil
}
func (f *vMemFile) Stat() (fs.FileInfo, error) { return vMemInfo{f.fs}, nil }
func (f *vMemFile) Close() error               { return nil }
func (f *vMemFile) Read(p []byte) (int, error) {
	if f.pos >= len(f.fs.data) {
		return 0, io.EOF
	}
	n := copy(p, f.fs.data[f.pos:])
	f.pos += n
	return n, nil
}
func (i vMemInfo) Name() string       { return i.fs.name }
func (i vMemInfo) Size() int64        { return int64(len(i.fs.data)) }
func (i vMemInfo) Mode() fs.FileMode  { return 0o444 }
func (i vMemInfo) ModTime() time.Time { return time.Time{} }
func (i vMemInfo) IsDir() bool        { return false }
func (i vMemInfo) Sys() any           { return nil }

func vUpload(tamperKind int) {
	verif.NoPanic()
	verif.FSReset()
	sizes := []int{1, 2, 5}
	if verif.Tier() > 0 {
		sizes = []int{1, 2, 3, 4, 5, 6, 9}
	}
	size := sizes[verif.Choose("size", len(sizes))]
	content := verif.Bytes("content", size)
	owner := &UploadRequest{Dir: "/up", Name: "r.bin"}
	device := &Upload{FS: &vMemFS{name: "r.bin", data: content}}
	t := &vTunnel{owner: owner, device: device, modName: "fdo.upload", mtu: 1300}
	flipped := false
	switch tamperKind {
	case 1:
		t.tamperUp = func(name string, v []byte) []byte {
			if name == "data" && !flipped && len(v) >= 2 {
				flipped = true
				w := append([]byte{}, v...)
				w[len(w)-1] ^= 1 + verif.U8("flip")%255
				return w
			}
			return v
		}
	case 2:
		t.tamperUp = func(name string, v []byte) []byte {
			if name != "sha-384" {
				return v
			}
			flipped = true
			other := verif.Bytes("otherdigest", 48)
			verif.Assume(!verif.BytesEq(other, v[2:]))
			return append([]byte{0x58, 48}, other...)
		}
	case 3:
		t.tamperUp = func(name string, v []byte) []byte {
			if name != "length" {
				return v
			}
			l := verif.U8("otherlen")
			verif.Assume(l >= 1 && l < 24 && int(l) != size)
			flipped = true
			return []byte{l}
		}
	}
	t.run(6)
	f, exists := verif.FSFile("/up/r.bin")
	if tamperKind == 0 {
		verif.Assert(t.ownerErr == nil && t.deviceErr == nil && t.ownerDone, "an honest upload completes without error")
		verif.Assert(exists && verif.BytesEq(f, content), "the uploaded file arrives bit-identical under the requested name")
		verif.Assert(verif.FSCount() == 1, "no temporary file is left behind")
		verif.Reached("honest")
		return
	}
	verif.Assume(flipped)
	verif.Assert(!exists || verif.BytesEq(f, content), "a file that appears in the upload directory is identical to the device's file")
	if tamperKind != 3 || true {
		verif.Assert(!(t.ownerDone && t.ownerErr == nil) || (exists && verif.BytesEq(f, content)), "the owner module reports completion only for an identical file")
	}
	if tamperKind == 1 || tamperKind == 2 {
		verif.Assert(!exists, "if data or digest were corrupted, no file appears")
	}
	if tamperKind == 3 {
		verif.Assert(!exists, "if the received length does not match the announced one, no file appears")
	}
	verif.Reached("tampered")
}

func VerifC17_UploadHonest() {
	verif.Bound("C17 upload", "file size {1,2,5} (quick) / {1..6,9} (thorough) symbolic bytes; device chunking as implemented (1014-byte chunks); MTU 1300; in-memory file model")
	vUpload(0)
}
func VerifC17_UploadDataCorrupted() {
	verif.Bound("C17 upload data", "as upload; one data byte altered in transit")
	vUpload(1)
}
func VerifC17_UploadDigestCorrupted() {
	verif.Bound("C17 upload digest", "as upload; the digest replaced by any other 48 bytes")
	vUpload(2)
}
func VerifC17_UploadLengthCorrupted() {
	verif.Bound("C17 upload length", "as upload; the announced length replaced by any other value 1..23")
	vUpload(3)
}

// (b) chunk production for every MTU: whatever budget the producer offers, a data
// chunk fits it, the offset advances exactly by the bytes emitted, and chunks are
// contiguous.
func VerifC17_SendDataEveryMTU() {
	verif.NoPanic()
	verif.Expect("chunk")
	verif.Bound("C17b", "owner DownloadContents after its announcement; file of 600 bytes (symbolic first/last byte of each chunk position is not needed: content opaque zeros with 4 symbolic marker bytes); chunk size in {1,23,24,255,256,1014,default,max}; producer MTU = any uint16 (length classes per branch); two consecutive rounds")
	content := make([]byte, 600)
	for _, i := range []int{0, 255, 256, 599} {
		content[i] = verif.U8("marker")
	}
	cs := []int{1, 23, 24, 255, 256, 1014, 0, -1}[verif.Choose("chunksize", 8)]
	d := &DownloadContents[*bytes.Reader]{Name: "f", Contents: bytes.NewReader(content), ChunkSize: cs}
	// announcement with a roomy MTU
	p0 := serviceinfo.NewProducer("fdo.download", 1300)
	_, _, err := d.ProduceInfo(context.Background(), p0)
	verif.Assert(err == nil, "announcement")
	mtu := verif.U16("mtu")
	verif.Assume(mtu >= 3)
	var emitted int64
	for round := 0; round < 2; round++ {
		p := serviceinfo.NewProducer("fdo.download", mtu)
		before := d.index
		_, _, err := d.ProduceInfo(context.Background(), p)
		if err != nil {
			verif.Assert(d.index == before, "a round that fails emits nothing and does not advance")
			verif.Reached("too small")
			return
		}
		kvs := p.ServiceInfo()
		verif.Assert(serviceinfo.ArraySizeCBOR(kvs) <= int64(mtu), "the data chunk fits the MTU the producer was created with")
		n := int64(0)
		for _, kv := range kvs {
			var chunk []byte
			verif.Assert(cbor.Unmarshal(kv.Val, &chunk) == nil, "a data value is one byte string")
			verif.Assert(verif.BytesEq(chunk, content[before+n:before+n+int64(len(chunk))]), "chunks are contiguous pieces of the file")
			n += int64(len(chunk))
		}
		verif.Assert(d.index == before+n, "the offset advances exactly by the bytes emitted")
		emitted += n
		if n > 0 {
			verif.Reached("chunk")
		}
	}
	verif.Reached("end")
}

// after a download that failed on a corrupted chunk, a second download in the same
// session (same device module instance, no new activation) still arrives identical
func VerifC17_DownloadAfterFailedTransfer() {
	verif.NoPanic()
	verif.FSReset()
	verif.Bound("C17 second download", "one device Download module; first transfer: announced length 4, one good chunk of 2 symbolic bytes, then a truncated data chunk (corrupted in transit) or a good chunk followed by a digest mismatch; second transfer: honest file of 1..3 symbolic bytes under another name")
	var elog bytes.Buffer
	device := &Download{NameToPath: func(n string) string { return "/dst/" + n }, ErrorLog: &elog}
	verif.Assert(device.Transition(true) == nil, "activate")
	var answers []vKV
	feed := func(name string, val []byte) error {
		var bufs []*vRespBuf
		respond := func(n string) io.Writer {
			r := &vRespBuf{name: n}
			bufs = append(bufs, r)
			return &r.buf
		}
		err := device.Receive(context.Background(), name, bytes.NewReader(val), respond, func() {})
		for _, r := range bufs {
			answers = append(answers, vKV{r.name, r.buf.Bytes()})
		}
		return err
	}
	enc := func(v any) []byte {
		b, err := cbor.Marshal(v)
		verif.Assert(err == nil, "harness: encode")
		return b
	}
	good := verif.Bytes("first", 2)
	verif.Assert(feed("name", enc("first.bin")) == nil && feed("length", enc(4)) == nil, "first announcement")
	verif.Assert(feed("sha-384", enc(verif.Bytes("claimeddigest", 48))) == nil, "first digest")
	verif.Assert(feed("data", enc(good)) == nil, "first chunk")
	if verif.Choose("failure", 2) == 0 {
		// a chunk that arrives damaged: a byte string head claiming more bytes than follow
		_ = feed("data", []byte{0x42, verif.U8("junk")})
	} else {
		// completes with a digest that cannot match (arbitrary claimed digest vs ideal hash)
		_ = feed("data", enc(verif.Bytes("first2", 2)))
	}
	_, firstExists := verif.FSFile("/dst/first.bin")
	n := 1 + verif.Choose("size2", 3)
	second := verif.Bytes("second", n)
	owner := &DownloadContents[*bytes.Reader]{Name: "second.bin", Contents: bytes.NewReader(second), MustDownload: true}
	t := &vTunnel{owner: owner, device: device, modName: "fdo.download", mtu: 1300}
	// the module is already active: the owner's "active" message does not re-run Transition
	t.skipTransition = true
	t.run(6)
	f, exists := verif.FSFile("/dst/second.bin")
	if t.ownerErr != nil {
		verif.Note("second download owner error: " + t.ownerErr.Error() + " | device log: " + elog.String())
	}
	if t.deviceErr != nil {
		verif.Note("second download device error: " + t.deviceErr.Error())
	}
	verif.Assert(t.ownerErr == nil && t.deviceErr == nil && t.ownerDone, "the second, honest download completes")
	verif.Assert(exists && verif.BytesEq(f, second), "and its file arrives bit-identical although an earlier transfer in the session failed")
	if firstExists {
		ff, _ := verif.FSFile("/dst/first.bin")
		verif.Assert(len(ff) == 4, "a first file exists only if it was completed")
	}
	verif.Reached("end")
}

// fdo.wget owner side: the device's report is accepted only if it matches the announced length
func VerifC17_WgetOwnerDone() {
	verif.NoPanic()
	verif.Expect("accepted")
	verif.Expect("refused")
	verif.Bound("C17 wget owner", "WgetCommand with announced Length = any int64 >= 0 (0 = not announced); device report 'done' = any int64")
	l := verif.I64("length")
	verif.Assume(l >= 0)
	w := &WgetCommand{Name: "f", Length: l}
	n := verif.I64("reported")
	b, err := cbor.Marshal(n)
	verif.Assert(err == nil, "encode")
	if err := w.HandleInfo(context.Background(), "done", bytes.NewReader(b)); err != nil {
		verif.Reached("refused")
		return
	}
	verif.Assert(l == 0 || n == l, "the owner accepts the device's report only if the received length equals the announced length")
	verif.Reached("accepted")
}
