//go:build verif

package http

import (
	"bytes"
	"crypto/rsa"
	"errors"
	"io"
	nethttp "net/http"
	"net/url"
	"strconv"

	"github.com/fido-device-onboard/go-fdo/internal/verif"
)

type vRecSess struct {
	accept   bool
	decCalls int
	plain    []byte
}

func (s *vRecSess) Parameter(io.Reader, *rsa.PublicKey) ([]byte, error) { return nil, nil }
func (s *vRecSess) SetParameter([]byte, *rsa.PrivateKey) error           { return nil }
func (s *vRecSess) Encrypt(_ io.Reader, payload any) (any, error)        { return payload, nil }
func (s *vRecSess) Decrypt(_ io.Reader, r io.Reader) ([]byte, error) {
	s.decCalls++
	if !s.accept {
		return nil, errors.New("harness: authentication failed")
	}
	_, _ = io.Copy(io.Discard, r)
	return s.plain, nil
}
func (s *vRecSess) Destroy() {}

// device side: whatever the HTTP framing of a response (declared length, unknown
// length, limits on or off), a message received under a session is handed to the
// protocol only as the plaintext the session's Decrypt returned - never the raw body
func VerifC05_ClientDecryptsEveryResponse() {
	verif.NoPanic()
	verif.Expect("delivered")
	verif.Expect("refused")
	verif.Bound("C05 client", "http.Transport.handleResponse with a session: status 200 with Message-Type 65/67/69/71 or 500 (error message); Content-Length in {-1 (unknown/chunked), 0, actual, 70000}; MaxContentLength in {0 (default), -1 (checks disabled), 10}; body 3 symbolic bytes; the session accepts or rejects")
	t := &Transport{MaxContentLength: []int64{0, -1, 10}[verif.Choose("maxlen", 3)]}
	body := verif.Bytes("body", 3)
	sess := &vRecSess{accept: verif.Choose("accept", 2) == 1, plain: []byte{0x01}}
	mt := []int{65, 67, 69, 71}[verif.Choose("msgtype", 4)]
	hdr := nethttp.Header{}
	hdr.Set("Message-Type", strconv.Itoa(mt))
	resp := &nethttp.Response{StatusCode: 200, Status: "200 OK", Header: hdr,
		ContentLength: []int64{-1, 0, 3, 70000}[verif.Choose("contentlength", 4)],
		Body:          io.NopCloser(bytes.NewReader(body)),
		Request:       &nethttp.Request{Method: "POST", URL: &url.URL{Path: "/fdo/101/msg/" + strconv.Itoa(mt-1)}}}
	gotType, content, err := t.handleResponse(resp, sess)
	if err != nil {
		verif.Reached("refused")
		return
	}
	verif.Reached("delivered")
	verif.Assert(int(gotType) == mt, "the message type is the announced one")
	verif.Assert(sess.decCalls == 1 && sess.accept, "a TO2 response received under a session is delivered only after the session's Decrypt accepted it")
	got, rerr := io.ReadAll(content)
	verif.Assert(rerr == nil && verif.BytesEq(got, sess.plain), "what is delivered is the decrypted plaintext, never the raw body")
}
