//go:build verif

package kex

import (
	"bytes"
	"crypto"

	"github.com/fido-device-onboard/go-fdo/cbor"
	"github.com/fido-device-onboard/go-fdo/cose"
	"github.com/fido-device-onboard/go-fdo/internal/verif"
)

var vCipherIDs = []CipherSuiteID{A128GcmCipher, A192GcmCipher, A256GcmCipher, CoseAes128CtrCipher, CoseAes128CbcCipher, CoseAes256CtrCipher, CoseAes256CbcCipher}

func vSession(id CipherSuiteID, tag string) SessionCrypter {
	suite := id.Suite()
	s := SessionCrypter{ID: id, Cipher: suite}
	s.SEK = verif.Bytes("sek"+tag, int(suite.EncryptAlg.KeySize()))
	if suite.MacAlg != 0 {
		s.SVK = verif.Bytes("svk"+tag, int(suite.MacAlg.KeySize()))
	}
	return s
}

func vIVOf(msg any) []byte {
	switch m := msg.(type) {
	case *cose.Encrypt0Tag[any, []byte]:
		iv, _ := m.Unprotected[cose.IvLabel].([]byte)
		return iv
	case *cose.Mac0Tag[cose.Encrypt0[any, []byte], []byte]:
		iv, _ := m.Payload.Val.Unprotected[cose.IvLabel].([]byte)
		return iv
	}
	return nil
}

// (b)(c)(d): round trip, fresh IV per message, plaintext and keys absent from the wire.
func VerifC05_EncDecRoundTrip() {
	verif.NoPanic()
	verif.Bound("C05bcd", "7 registered cipher suites; payload = byte string of 0..2 (quick) / 0..4 (thorough) symbolic bytes; two messages per session")
	id := vCipherIDs[verif.Choose("suite", len(vCipherIDs))]
	s := vSession(id, "")
	payload := verif.Bytes("payload", verif.Choose("npayload", 3+2*verif.Tier()))
	msg, err := s.Encrypt(nil, payload)
	verif.Assert(err == nil, "Encrypt succeeds")
	wire, err := cbor.Marshal(msg)
	verif.Assert(err == nil, "encrypted message encodes")
	if s.Cipher.MacAlg != 0 {
		verif.Assert(len(wire) > 0 && wire[0] == 0xd1, "encrypt-then-MAC suites send COSE_Mac0 (tag 17)")
	} else {
		verif.Assert(len(wire) > 0 && wire[0] == 0xd0, "AEAD suites send COSE_Encrypt0 (tag 16)")
	}
	plain, err := cbor.Marshal(payload)
	verif.Assert(err == nil, "payload encodes")
	got, err := s.Decrypt(nil, bytes.NewReader(wire))
	verif.Assert(err == nil, "Decrypt(Encrypt(m)) succeeds")
	verif.Assert(verif.BytesEq(got, plain), "Decrypt(Encrypt(m)) yields exactly the protected plaintext")
	// confidentiality (structural non-interference)
	if len(payload) > 0 {
		verif.Assert(verif.FreeOf(wire, payload), "no plaintext symbol occurs in the wire bytes")
	}
	verif.Assert(verif.FreeOf(wire, s.SEK), "no key symbol occurs in the wire bytes")
	// fresh IV per message
	iv1 := vIVOf(msg)
	verif.Assert(len(iv1) > 0 && verif.IsFreshRandom(iv1), "the IV header is fresh randomness of this Encrypt call")
	msg2, err := s.Encrypt(nil, payload)
	verif.Assert(err == nil, "second Encrypt succeeds")
	iv2 := vIVOf(msg2)
	verif.Assert(len(iv2) == len(iv1) && verif.IsFreshRandom(iv2), "the second message has its own fresh IV")
	verif.MustBeFeasible(!verif.BytesEq(iv1, iv2), "two messages of one session can carry different IVs")
	// another session's keys do not decrypt
	verif.Reached("end")
}

func vProtAlg(mode int, suiteAlg int64, tag string) (cose.HeaderMap, bool) {
	switch mode {
	case 0:
		return cose.HeaderMap{cose.AlgLabel: suiteAlg}, true
	case 1:
		return cose.HeaderMap{}, false
	case 2:
		// another registered encryption alg, a MAC alg id, an unregistered id, zero
		others := []int64{int64(cose.A256GCM), int64(cose.A128CTR), int64(cose.HMac256), 99, 0, -1}
		o := others[verif.Choose("otheralg"+tag, len(others))]
		verif.Assume(o != suiteAlg)
		return cose.HeaderMap{cose.AlgLabel: o}, true
	}
	return cose.HeaderMap{cose.AlgLabel: "text"}, true
}

var vIVLens = []int{-1, 0, 12, 16, 17}
var vCtLens = []int{-1, 0, 1, 15, 16, 17, 32}

func vShapedE0(s SessionCrypter, good bool) (e0 cose.Encrypt0[cbor.RawBytes, []byte], ivLen, ctLen int) {
	e0.Protected, e0.Unprotected = cose.HeaderMap{}, cose.HeaderMap{}
	aead := s.Cipher.MacAlg == 0
	if good {
		if aead {
			e0.Protected[cose.AlgLabel] = int64(s.Cipher.EncryptAlg)
			ivLen = 12
		} else {
			e0.Unprotected[cose.AlgLabel] = int64(s.Cipher.EncryptAlg)
			ivLen = 16
		}
		ctLen = 16
		if aead {
			ctLen = 17
		}
	} else {
		hm, _ := vProtAlg(verif.Choose("algmode", 4), int64(s.Cipher.EncryptAlg), "e0")
		if verif.Choose("algbucket", 2) == 0 {
			e0.Protected = hm
		} else {
			e0.Unprotected = hm
		}
		ivLen = vIVLens[verif.Choose("ivlen", len(vIVLens))]
		ctLen = vCtLens[verif.Choose("ctlen", len(vCtLens))]
	}
	if ivLen >= 0 {
		e0.Unprotected[cose.IvLabel] = verif.Bytes("iv", ivLen)
	}
	if ctLen >= 0 {
		ct := verif.Bytes("ct", ctLen)
		e0.Ciphertext = &ct
	}
	return
}

// (a)(f) part 1: COSE_Encrypt0 (tag 16) and unknown tags with arbitrary shape-bounded content.
func VerifC05_DecryptEnc0Shapes() {
	verif.Expect("accepted")
	verif.NoPanic()
	verif.Bound("C05af enc0", "7 suites; outer tag 16 or 18; alg header: suite's / absent / one of 6 other ids / text, in protected or unprotected bucket; IV absent or length {0,12,16,17}; ciphertext null or length {0,1,15,16,17,32}; contents symbolic")
	id := vCipherIDs[verif.Choose("suite", len(vCipherIDs))]
	s := vSession(id, "")
	aead := s.Cipher.MacAlg == 0
	verif.SetGhost("plainshape", 1)
	verif.Note("decrypted plaintext is assumed to be one well-formed byte string (garbage-plaintext parsing is cut; CBC padding is checked in VerifC05_CbcDecryptTotal)")
	e0, ivLen, ctLen := vShapedE0(s, false)
	tagNum := uint64(cose.Encrypt0TagNum)
	if verif.Choose("outer18", 2) == 1 {
		tagNum = 18
	}
	wire, err := cbor.Marshal(cbor.Tag[cose.Encrypt0[cbor.RawBytes, []byte]]{Num: tagNum, Val: e0})
	verif.Assert(err == nil, "harness: wrapper encodes")
	_, derr := s.Decrypt(nil, bytes.NewReader(wire))
	if derr == nil {
		verif.Assert(tagNum == cose.Encrypt0TagNum, "only COSE tags 16/17 are accepted")
		verif.Assert(aead, "an encrypt-then-MAC session accepts only COSE_Mac0 (tag 17): a bare COSE_Encrypt0 is unauthenticated")
		verif.Assert(ctLen >= 16 && ivLen == 12, "an accepted AEAD message has a 12-byte IV and a ciphertext with room for the tag")
		alg, ok := e0.Protected[cose.AlgLabel].(int64)
		verif.Assert(ok && alg == int64(s.Cipher.EncryptAlg), "an accepted AEAD message names the session's algorithm in the protected header")
		verif.Reached("accepted")
	}
	verif.Reached("end")
}

// (a)(f) part 2: COSE_Mac0 (tag 17) around a well-shaped COSE_Encrypt0.
func VerifC05_DecryptMac0Shapes() {
	verif.Expect("accepted")
	verif.NoPanic()
	verif.Bound("C05af mac0", "7 suites; outer tag 17; MAC alg header: suite's / absent / one of 6 other ids; tag value length {0,32,48}; payload null or a well-shaped COSE_Encrypt0 with symbolic IV and ciphertext")
	id := vCipherIDs[verif.Choose("suite", len(vCipherIDs))]
	s := vSession(id, "")
	aead := s.Cipher.MacAlg == 0
	verif.SetGhost("plainshape", 1)
	e0, _, _ := vShapedE0(s, true)
	var m0 cose.Mac0[cose.Encrypt0[cbor.RawBytes, []byte], []byte]
	mm, _ := vProtAlg(verif.Choose("macalgmode", 3), int64(s.Cipher.MacAlg), "mac")
	m0.Protected, m0.Unprotected = mm, cose.HeaderMap{}
	macVal := verif.Bytes("macval", []int{0, 32, 48}[verif.Choose("maclen", 3)])
	m0.Value = macVal
	present := verif.Choose("macpayload", 2) == 1
	if present {
		m0.Payload = cbor.NewByteWrap(e0)
	}
	wire, err := cbor.Marshal(cbor.Tag[cose.Mac0[cose.Encrypt0[cbor.RawBytes, []byte], []byte]]{Num: cose.Mac0TagNum, Val: m0})
	verif.Assert(err == nil, "harness: wrapper encodes")
	_, derr := s.Decrypt(nil, bytes.NewReader(wire))
	if derr == nil {
		verif.Assert(!aead, "an AEAD session accepts only COSE_Encrypt0 (tag 16)")
		verif.Assert(present, "an accepted COSE_Mac0 carries its payload")
		h := crypto.SHA256
		if s.Cipher.MacAlg == cose.HMac384 {
			h = crypto.SHA384
		}
		e0bytes, err := cbor.Marshal(e0)
		verif.Assert(err == nil, "harness: carried Encrypt0 encodes")
		macProt, err := cbor.Marshal(int64(s.Cipher.MacAlg))
		verif.Assert(err == nil, "harness: mac alg encodes")
		ms := vRefMacStructure(append([]byte{0xa1, 0x01}, macProt...), e0bytes)
		verif.Assert(verif.BytesEq(macVal, verif.HmacOf(h, s.SVK, ms)), "accepted COSE_Mac0 value = HMAC(SVK, MAC_structure(suite MAC alg, carried COSE_Encrypt0))")
		verif.Reached("accepted")
	}
	verif.Reached("end")
}

func vHeadB(maj byte, n int) []byte {
	switch {
	case n < 24:
		return []byte{maj<<5 | byte(n)}
	case n <= 0xff:
		return []byte{maj<<5 | 24, byte(n)}
	}
	return []byte{maj<<5 | 25, byte(n >> 8), byte(n)}
}

// MAC_structure = ["MAC0", bstr protected, bstr external(empty), bstr payload]
func vRefMacStructure(protected, payload []byte) []byte {
	out := []byte{0x84, 0x64, 'M', 'A', 'C', '0'}
	out = append(out, vHeadB(2, len(protected))...)
	out = append(out, protected...)
	out = append(out, 0x40)
	out = append(out, vHeadB(2, len(payload))...)
	out = append(out, payload...)
	return out
}

// a message protected under another session's keys is not accepted as this session's
func VerifC05_CrossSession() {
	verif.NoPanic()
	verif.Bound("C05 cross", "7 suites, two sessions with independent symbolic keys, payload 1 byte")
	id := vCipherIDs[verif.Choose("suite", len(vCipherIDs))]
	a := vSession(id, "A")
	b := vSession(id, "B")
	verif.SetGhost("plainshape", 1)
	payload := verif.Bytes("payload", 1)
	msg, err := a.Encrypt(nil, payload)
	verif.Assert(err == nil, "Encrypt succeeds")
	wire, err := cbor.Marshal(msg)
	verif.Assert(err == nil, "message encodes")
	_, derr := b.Decrypt(nil, bytes.NewReader(wire))
	if derr == nil {
		// accepted: only if the authenticating key coincides
		if b.Cipher.MacAlg != 0 {
			verif.Assert(verif.BytesEq(a.SVK, b.SVK), "a message MACed under another session's key is accepted only if the MAC keys are equal")
		} else {
			verif.Assert(verif.BytesEq(a.SEK, b.SEK), "an AEAD message sealed under another session's key is accepted only if the keys are equal")
		}
	}
	verif.Reached("end")
}

// the cipher-suite registry equals the specification's table (FDO 1.1, 4.4): the
// three AES-GCM suites are AEAD, the four AES-CBC/CTR suites are encrypt-then-MAC
// with HMAC-SHA256 (128-bit) resp. HMAC-SHA384 (256-bit); every TO2 message of an
// encrypt-then-MAC suite therefore carries a MAC.
func VerifC05_SuiteTable() {
	verif.NoPanic()
	verif.Bound("C05 table", "the 7 registered cipher suite ids")
	type row struct {
		id   CipherSuiteID
		enc  cose.EncryptAlgorithm
		mac  cose.MacAlgorithm
		bits uint16
	}
	table := []row{
		{A128GcmCipher, cose.A128GCM, 0, 128}, {A192GcmCipher, cose.A192GCM, 0, 192}, {A256GcmCipher, cose.A256GCM, 0, 256},
		{CoseAes128CbcCipher, cose.A128CBC, cose.HMac256, 128}, {CoseAes128CtrCipher, cose.A128CTR, cose.HMac256, 128},
		{CoseAes256CbcCipher, cose.A256CBC, cose.HMac384, 256}, {CoseAes256CtrCipher, cose.A256CTR, cose.HMac384, 256},
	}
	r := table[verif.Choose("suite", len(table))]
	s := r.id.Suite()
	verif.Assert(s.EncryptAlg == r.enc, "the suite's encryption algorithm is the specified one")
	verif.Assert(s.MacAlg == r.mac, "AEAD suites have no separate MAC; encrypt-then-MAC suites use HMAC-SHA256 (128-bit) / HMAC-SHA384 (256-bit)")
	verif.Assert(s.EncryptAlg.KeySize() == r.bits/8 || s.EncryptAlg.KeySize() == r.bits, "key size")
	// and a message of an encrypt-then-MAC suite is a COSE_Mac0
	sess := vSession(r.id, "")
	msg, err := sess.Encrypt(nil, []byte{1})
	verif.Assert(err == nil, "Encrypt")
	wire, err := cbor.Marshal(msg)
	verif.Assert(err == nil, "encode")
	if r.mac != 0 {
		verif.Assert(len(wire) > 0 && wire[0] == 0xd1, "encrypt-then-MAC suites send COSE_Mac0 (tag 17)")
	} else {
		verif.Assert(len(wire) > 0 && wire[0] == 0xd0, "AEAD suites send COSE_Encrypt0 (tag 16)")
	}
	verif.Reached("end")
}
