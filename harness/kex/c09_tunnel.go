//go:build verif

package kex

import (
	"bytes"
	"crypto/rsa"

	"github.com/fido-device-onboard/go-fdo/cbor"
	"github.com/fido-device-onboard/go-fdo/internal/verif"
)

// every registered (key exchange, cipher) pair yields sessions whose tunnel works:
// what the owner encrypts the device decrypts to the same plaintext, and back.
func vTunnelUsable(suite Suite) {
	verif.NoPanic()
	verif.Bound("C09 tunnel "+string(suite), "7 registered cipher suites; honest exchange with symbolic randomness; one message of 2 or 15 bytes (CBOR plaintext of 3 resp. exactly 16 bytes) in each direction through the real SessionCrypter (cipher primitives idealised)")
	cipher := vCipherIDs[verif.Choose("cipher", len(vCipherIDs))]
	verif.SetGhost("exp-leading-zero-bytes", 0)
	verif.SetGhost("exp-nondegenerate", 1)
	verif.SetGhost("rand-top-nonzero", 1)
	var pub *rsa.PublicKey
	var priv *rsa.PrivateKey
	switch suite {
	case ASYMKEX2048Suite:
		pub = verif.NewRSAPub(verif.Bytes("n", 256))
		priv = verif.NewRSAPriv(pub)
	case ASYMKEX3072Suite:
		pub = verif.NewRSAPub(verif.Bytes("n", 384))
		priv = verif.NewRSAPriv(pub)
	}
	verif.Assert(Available(suite, cipher), "every pair of a registered key exchange and a registered cipher is available")
	owner := suite.New(nil, cipher)
	xA, err := owner.Parameter(verif.M_RandReader, pub)
	verif.Assert(err == nil, "owner Parameter")
	device := suite.New(xA, cipher)
	xB, err := device.Parameter(verif.M_RandReader, pub)
	verif.Assert(err == nil, "device Parameter")
	verif.Assert(owner.SetParameter(xB, priv) == nil, "owner SetParameter")
	// 2 bytes, and 15 bytes: the CBOR plaintext (16 bytes) is then a whole number of AES blocks,
	// so the CBC suites append a full block of padding
	payload := verif.Bytes("payload", []int{2, 15}[verif.Choose("npayload", 2)])
	plain, err := cbor.Marshal(payload)
	verif.Assert(err == nil, "payload encodes")
	for dir, pair := range [][2]Session{{owner, device}, {device, owner}} {
		msg, err := pair[0].Encrypt(verif.M_RandReader, payload)
		verif.Assert(err == nil, "a valid configuration can encrypt its tunnel messages")
		wire, err := cbor.Marshal(msg)
		verif.Assert(err == nil, "tunnel message encodes")
		got, err := pair[1].Decrypt(verif.M_RandReader, bytes.NewReader(wire))
		verif.Assert(err == nil, "the peer can decrypt them")
		verif.Assert(verif.BytesEq(got, plain), "and obtains the plaintext that was protected")
		_ = dir
	}
	verif.Reached("end")
}

func VerifC09_Tunnel_ECDH256()  { vTunnelUsable(ECDH256Suite) }
func VerifC09_Tunnel_ECDH384()  { vTunnelUsable(ECDH384Suite) }
func VerifC09_Tunnel_DH14()     { vTunnelUsable(DHKEXid14Suite) }
func VerifC09_Tunnel_DH15()     { vTunnelUsable(DHKEXid15Suite) }
func VerifC09_Tunnel_ASYM2048() { vTunnelUsable(ASYMKEX2048Suite) }
func VerifC09_Tunnel_ASYM3072() { vTunnelUsable(ASYMKEX3072Suite) }
