//go:build verif

package kex

import (
	"crypto/rsa"
	"encoding"
	"io"

	"github.com/fido-device-onboard/go-fdo/internal/nistkdf"
	"github.com/fido-device-onboard/go-fdo/internal/verif"
)

func vKeysOf(s Session) (sek, svk []byte) {
	switch x := s.(type) {
	case *ECDHSession:
		return x.SEK, x.SVK
	case *DHSession:
		return x.SEK, x.SVK
	case *OAEPSession:
		return x.SEK, x.SVK
	}
	return nil, nil
}

// persist/restore the way the SQLite backend does
func vRestore(suite Suite, s Session) Session {
	data, err := s.(encoding.BinaryMarshaler).MarshalBinary()
	verif.Assert(err == nil, "session serialises")
	fresh := suite.New(nil, 1)
	verif.Assert(fresh.(encoding.BinaryUnmarshaler).UnmarshalBinary(data) == nil, "session restores")
	return fresh
}

var vSuites = []Suite{ECDH256Suite, ECDH384Suite, DHKEXid14Suite, DHKEXid15Suite, ASYMKEX2048Suite, ASYMKEX3072Suite}

// (a)(c)(d): both parties derive the same keys of the cipher's lengths; the
// owner session may be serialised/restored after Parameter and before SetParameter.
func vAgreement(suite Suite, persist bool) {
	verif.NoPanic()
	cipher := vCipherIDs[verif.Choose("cipher", len(vCipherIDs))]
	verif.SetGhost("exp-leading-zero-bytes", 0)
	verif.SetGhost("exp-nondegenerate", 1)
	verif.SetGhost("rand-top-nonzero", 1)
	verif.Note("DH: exponentiation results are assumed non-degenerate (in [2,p-2]) and, like the random exponents, without leading zero bytes (probability-2^-8 shortenings are outside the bound)")
	var pub *rsa.PublicKey
	var priv *rsa.PrivateKey
	switch suite {
	case ASYMKEX2048Suite:
		pub = verif.NewRSAPub(verif.Bytes("n", 256))
		priv = verif.NewRSAPriv(pub)
	case ASYMKEX3072Suite:
		pub = verif.NewRSAPub(verif.Bytes("n", 384))
		priv = verif.NewRSAPriv(pub)
	}
	owner := suite.New(nil, cipher)
	verif.Assert(owner != nil, "registered suite constructs a session")
	xA, err := owner.Parameter(verif.M_RandReader, pub)
	verif.Assert(err == nil, "owner Parameter succeeds")
	if persist {
		owner = vRestore(suite, owner)
	}
	xA0 := append([]byte{}, xA...) // the sessions clear their copies (which may alias xA) once keys are derived
	device := suite.New(xA, cipher)
	devRand := &vRecReader{r: verif.M_RandReader}
	xB, err := device.Parameter(devRand, pub)
	verif.Assert(err == nil, "device Parameter succeeds")
	err = owner.SetParameter(xB, priv)
	verif.Assert(err == nil, "owner SetParameter succeeds on an honest device parameter")
	if persist {
		owner = vRestore(suite, owner)
	}
	osek, osvk := vKeysOf(owner)
	dsek, dsvk := vKeysOf(device)
	cs := cipher.Suite()
	verif.Assert(len(osek) == int(cs.EncryptAlg.KeySize()), "SEK has exactly the cipher's key length")
	wantSVK := 0
	if cs.MacAlg != 0 {
		wantSVK = int(cs.MacAlg.KeySize())
	}
	verif.Assert(len(osvk) == wantSVK, "SVK has exactly the MAC's key length (none for AEAD suites)")
	verif.Assert(verif.BytesEq(osek, dsek), "owner and device derive the same SEK")
	verif.Assert(verif.BytesEq(osvk, dsvk), "owner and device derive the same SVK")
	if pub != nil {
		// ASYMKEX: the shared secret is the device's fresh random (sent OAEP-encrypted),
		// the context is the owner's random: keys = KDF(PRF, deviceRandom, ownerRandom, L)
		verif.Assert(len(devRand.got) >= len(xA0), "device drew its random parameter")
		ref := nistkdf.KDF(cs.PRFHash, append([]byte{}, devRand.got[:len(xA0)]...), append([]byte{}, xA0...), uint16(len(osek)+len(osvk))*8)
		verif.Assert(verif.BytesEq(append(append([]byte{}, osek...), osvk...), ref), "ASYMKEX keys are derived from the device's fresh random parameter (shared secret) and the owner's random (context)")
	}
	verif.Reached("end")
}

// vRecReader records what is read from a randomness source
type vRecReader struct {
	r   io.Reader
	got []byte
}

func (r *vRecReader) Read(p []byte) (int, error) {
	n, err := r.r.Read(p)
	r.got = append(r.got, p[:n]...)
	return n, err
}

func VerifC14_Agree_ECDH256()     { vAgreement(ECDH256Suite, false) }
func VerifC14_Agree_ECDH384()     { vAgreement(ECDH384Suite, false) }
func VerifC14_Agree_DH14()        { vAgreement(DHKEXid14Suite, false) }
func VerifC14_Agree_DH15()        { vAgreement(DHKEXid15Suite, false) }
func VerifC14_Agree_ASYM2048()    { vAgreement(ASYMKEX2048Suite, false) }
func VerifC14_Agree_ASYM3072()    { vAgreement(ASYMKEX3072Suite, false) }
func VerifC14_Persist_ECDH256()   { vAgreement(ECDH256Suite, true) }
func VerifC14_Persist_ECDH384()   { vAgreement(ECDH384Suite, true) }
func VerifC14_Persist_DH14()      { vAgreement(DHKEXid14Suite, true) }
func VerifC14_Persist_ASYM2048()  { vAgreement(ASYMKEX2048Suite, true) }

// (c) independent sessions: two honest runs with independent randomness can derive different keys
func VerifC14_Independent() {
	verif.NoPanic()
	suite := []Suite{ECDH256Suite, ASYMKEX2048Suite}[verif.Choose("suite", 2)]
	cipher := A128GcmCipher
	var pub *rsa.PublicKey
	if suite == ASYMKEX2048Suite {
		pub = verif.NewRSAPub(verif.Bytes("n", 256))
	}
	run := func() []byte {
		owner := suite.New(nil, cipher)
		xA, err := owner.Parameter(verif.M_RandReader, pub)
		verif.Assert(err == nil, "owner Parameter")
		device := suite.New(xA, cipher)
		_, err = device.Parameter(verif.M_RandReader, pub)
		verif.Assert(err == nil, "device Parameter")
		sek, _ := vKeysOf(device)
		return sek
	}
	k1 := run()
	k2 := run()
	verif.MustBeFeasible(!verif.BytesEq(k1, k2), "independent sessions can derive different keys")
	verif.Reached("end")
}

// (e) ecdhParam: Unmarshal(Marshal(p)) == p; UnmarshalBinary total on arbitrary bytes.
func VerifC14_EcdhParamRoundTrip() {
	verif.NoPanic()
	n := []int{32, 48}[verif.Choose("curve", 2)]
	p := ecdhParam{Pub: append([]byte{4}, verif.Bytes("pub", 2*n)...), Rand: verif.Bytes("rand", n/2*1)}
	b, err := p.MarshalBinary()
	verif.Assert(err == nil, "ecdhParam marshals")
	var q ecdhParam
	verif.Assert(q.UnmarshalBinary(b) == nil, "ecdhParam unmarshals its own encoding")
	verif.Assert(verif.BytesEq(q.Pub, p.Pub), "public point survives, including leading zero bytes of either coordinate")
	verif.Assert(verif.BytesEq(q.Rand, p.Rand), "random survives")
	verif.Reached("end")
}

func VerifC14_EcdhParamTotal() {
	verif.NoPanic()
	verif.Bound("C14e", "arbitrary 0..8 (quick) / 0..10 (thorough) bytes - long enough for three length-prefixed fields whose coordinate lengths differ")
	b := verif.Bytes("b", verif.Choose("n", 9+2*verif.Tier()))
	var q ecdhParam
	_ = q.UnmarshalBinary(b)
	verif.Reached("end")
}

// (g) malformed / wrong-size peer parameters: error, no keys, no panic.
func VerifC14_BadParams() {
	verif.NoPanic()
	verif.Bound("C14g", "ECDH256: device parameter of arbitrary 0..6 bytes or a well-formed parameter with an off-curve/foreign point; ASYMKEX2048: ciphertext of length 255/256/257; DHKEXid14: device value in {0,1,p-1,p} and arbitrary")
	cipher := A128GcmCipher
	verif.SetGhost("exp-leading-zero-bytes", 0)
	verif.SetGhost("exp-nondegenerate", 1)
	switch verif.Choose("case", 4) {
	case 0:
		owner := ECDH256Suite.New(nil, cipher)
		_, err := owner.Parameter(verif.M_RandReader, nil)
		verif.Assert(err == nil, "owner Parameter")
		err = owner.SetParameter(verif.Bytes("xb", verif.Choose("n", 7)), nil)
		verif.Assert(err != nil, "a truncated ECDH parameter is rejected")
		sek, _ := vKeysOf(owner)
		verif.Assert(len(sek) == 0, "no key after a rejected parameter")
	case 1:
		owner := ECDH256Suite.New(nil, cipher)
		_, err := owner.Parameter(verif.M_RandReader, nil)
		verif.Assert(err == nil, "owner Parameter")
		p := ecdhParam{Pub: append([]byte{4}, verif.Bytes("pub", 64)...), Rand: verif.Bytes("rand", 16)}
		xb, _ := p.MarshalBinary()
		err = owner.SetParameter(xb, nil)
		if err != nil {
			sek, _ := vKeysOf(owner)
			verif.Assert(len(sek) == 0, "no key after a rejected point")
		}
	case 2:
		pub := verif.NewRSAPub(verif.Bytes("n", 256))
		owner := ASYMKEX2048Suite.New(nil, cipher)
		_, err := owner.Parameter(verif.M_RandReader, pub)
		verif.Assert(err == nil, "owner Parameter")
		ct := verif.Bytes("ct", 255+verif.Choose("len", 3))
		err = owner.SetParameter(ct, verif.NewRSAPriv(pub))
		if len(ct) != 256 {
			verif.Assert(err != nil, "wrong-size OAEP ciphertext is rejected")
		}
		if err != nil {
			sek, _ := vKeysOf(owner)
			verif.Assert(len(sek) == 0, "no key after a rejected ciphertext")
		}
		err = owner.SetParameter(ct, nil)
		verif.Assert(err != nil, "missing owner private key is an error")
	case 3:
		owner := DHKEXid14Suite.New(nil, cipher)
		_, err := owner.Parameter(verif.M_RandReader, nil)
		verif.Assert(err == nil, "owner Parameter")
		var xb []byte
		switch verif.Choose("dhval", 4) {
		case 0:
			xb = []byte{0}
		case 1:
			xb = []byte{1}
		case 2:
			xb = bigIntBytes(prime14)
			xb[len(xb)-1]-- // p-1
		case 3:
			xb = bigIntBytes(prime14)
		}
		err = owner.SetParameter(xb, nil)
		verif.Assert(err != nil, "degenerate DH public values 0, 1, p-1, p are rejected")
		sek, _ := vKeysOf(owner)
		verif.Assert(len(sek) == 0, "no key after a rejected DH value")
	}
	verif.Reached("end")
}

// (f) dhSymmetricKey: keys only for 2 <= other <= p-2 and a non-degenerate secret, over all values.
func VerifC14_DHRange() {
	verif.NoPanic()
	verif.Bound("C14f", "group 14 (2048 bit); peer value and shared secret arbitrary 2048-bit values")
	verif.SetGhost("exp-leading-zero-bytes", 255)
	other := verif.NewBig(verif.Bytes("other", 256))
	own := verif.NewBig(verif.Bytes("own", 32))
	sek, _, err := dhSymmetricKey(other, own, prime14, A128GcmCipher.Suite())
	if err == nil {
		two := verif.NewBig([]byte{2})
		pm2 := verif.BigSub(prime14, two)
		verif.Assert(other.Cmp(two) >= 0 && other.Cmp(pm2) <= 0, "keys only for 2 <= peer value <= p-2")
		verif.Assert(len(sek) == 16, "key length")
	}
	verif.Reached("end")
}
