//go:build verif

package nistkdf

import (
	"crypto"

	"github.com/fido-device-onboard/go-fdo/internal/verif"
)

// (b) KDF == SP 800-108 counter mode with FDO's label/context/length fields.
func VerifC14_KDFReference() {
	verif.NoPanic()
	verif.Bound("C14b", "SHA-256 and SHA-384 PRF; output lengths L in {8,128,192,256,264,384,392,512,520,768,1024} (+4096, 8160 thorough) bits (every (SEK+SVK)*8 the suites use plus block boundaries and the largest L the code accepts for SHA-256); key 0..3 symbolic bytes, context 0..2 symbolic bytes")
	hs := []crypto.Hash{crypto.SHA256, crypto.SHA384}
	h := hs[verif.Choose("hash", 2)]
	Ls := []uint16{8, 128, 192, 256, 264, 384, 392, 512, 520, 768, 1024}
	if verif.Tier() > 0 {
		Ls = append(Ls, 4096, 8160)
	}
	L := Ls[verif.Choose("L", len(Ls))]
	key := verif.Bytes("key", verif.Choose("nkey", 4))
	ctx := verif.Bytes("ctx", verif.Choose("nctx", 3))
	got := KDF(h, key, ctx, L)

	hbytes := h.Size()
	need := int(L) / 8
	blocks := (need + hbytes - 1) / hbytes
	var ref []byte
	for i := 1; i <= blocks; i++ {
		in := []byte{byte(i)}
		in = append(in, "FIDO-KDF"...)
		in = append(in, 0)
		in = append(in, "AutomaticOnboardTunnel"...)
		in = append(in, ctx...)
		in = append(in, byte(L>>8), byte(L))
		ref = append(ref, verif.HmacOf(h, key, in)...)
	}
	ref = ref[:need]
	verif.Assert(len(got) == need, "KDF returns exactly L/8 bytes")
	verif.Assert(verif.BytesEq(got, ref), "KDF = leftmost L bits of PRF(K, [i]8 || FIDO-KDF || 00 || AutomaticOnboardTunnel || context || [L]16), i = 1..n")
	verif.Reached("end")
}
