//go:build verif

package protocol

import (
	"net"
	"strconv"
	"time"

	"github.com/fido-device-onboard/go-fdo/cbor"
	"github.com/fido-device-onboard/go-fdo/internal/verif"
)

func vParse(info [][]RvInstruction, device bool) []RvDirective {
	if device {
		return ParseDeviceRvInfo(info)
	}
	return ParseOwnerRvInfo(info)
}

// (a) totality: one instruction with an arbitrary variable and arbitrary value bytes.
func VerifC20_TotalOne() {
	verif.NoPanic()
	verif.Bound("C20a", "1 instruction, variable = any uint8, value = any 0..2 (quick) / 0..4 (thorough) bytes, both roles")
	device := verif.Bool("device")
	n := verif.Choose("nval", 3+2*verif.Tier())
	ins := RvInstruction{Variable: RvVar(verif.U8("var")), Value: verif.Bytes("val", n)}
	if n == 0 && verif.Bool("nilval") {
		ins.Value = nil
	}
	d := vParse([][]RvInstruction{{ins}}, device)
	verif.Assert(len(d) == 1, "one directive per instruction list")
	verif.Reached("end")
}

// values that are well-formed encodings of typed symbolic data
func vEnc(v any) []byte {
	b, err := cbor.Marshal(v)
	verif.Assert(err == nil, "harness: encode instruction value")
	return b
}

type vChoice struct {
	ins     RvInstruction
	proto   int // -1 none
	devPort int
	ownPort int
	dns     string
	ip      net.IP
	devOnly, ownOnly, bypass bool
	delay   uint32
	hasDelay bool
	medium  int
}

// vPick builds the k-th kind of instruction with symbolic, well-formed content.
func vPick(kind int, c *vChoice) {
	c.proto, c.devPort, c.ownPort, c.medium = -1, -1, -1, -1
	switch kind {
	case 0:
		p := verif.U8("proto")
		verif.Assume(p <= 7)
		c.proto = int(p)
		c.ins = RvInstruction{Variable: RVProtocol, Value: vEnc(p)}
	case 1:
		p := vPorts[verif.Choose("devport", len(vPorts))]
		c.devPort = int(p)
		c.ins = RvInstruction{Variable: RVDevPort, Value: vEnc(p)}
	case 2:
		p := vPorts[verif.Choose("ownport", len(vPorts))]
		c.ownPort = int(p)
		c.ins = RvInstruction{Variable: RVOwnerPort, Value: vEnc(p)}
	case 3:
		n := 1 + verif.Choose("dnslen", 2)
		s := verif.String("dns", n)
		c.dns = s
		c.ins = RvInstruction{Variable: RVDns, Value: vEnc(s)}
	case 4:
		ip := net.IP(verif.Bytes("ip", 4))
		c.ip = ip
		c.ins = RvInstruction{Variable: RVIPAddress, Value: vEnc(ip)}
	case 5:
		c.devOnly = true
		c.ins = RvInstruction{Variable: RVDevOnly}
	case 6:
		c.ownOnly = true
		c.ins = RvInstruction{Variable: RVOwnerOnly}
	case 7:
		c.bypass = true
		c.ins = RvInstruction{Variable: RVBypass}
	case 8:
		d := verif.U32("delay")
		c.delay, c.hasDelay = d, true
		c.ins = RvInstruction{Variable: RVDelaysec, Value: vEnc(d)}
	case 9:
		md := verif.U8("medium")
		c.medium = int(md)
		c.ins = RvInstruction{Variable: RVMedium, Value: vEnc(md)}
	}
}

// ports are enumerated (decimal formatting is strconv's job, not the property's)
var vPorts = []uint16{0, 1, 23, 24, 80, 255, 256, 443, 8080, 65535}

const vKinds = 10

func vRefScheme(proto int) (scheme, defPort string) {
	switch proto {
	case 1:
		return "http", "80"
	case 2:
		return "https", "443"
	case 3:
		return "tcp", ""
	case 4:
		return "tls", ""
	case 5:
		return "coap+tcp", "5683"
	case 6:
		return "coap", "5683"
	}
	return "tls", ""
}

// (b)(d) two distinct instructions, reference interpretation and role filter.
func VerifC20_Reference2() {
	verif.NoPanic()
	verif.Bound("C20bd", "2 instructions of distinct kinds out of 10 (protocol, device port, owner port, DNS 1..2 bytes, IPv4 (4 symbolic bytes), dev-only, owner-only, bypass, delay, medium) with symbolic well-formed values (ports from 10 boundary values); both roles; both orders")
	device := verif.Choose("device", 2) == 1
	k1 := verif.Choose("k1", vKinds)
	k2 := verif.Choose("k2", vKinds)
	verif.Assume(k1 < k2)
	var a, b vChoice
	vPick(k1, &a)
	vPick(k2, &b)
	list := []RvInstruction{a.ins, b.ins}
	if verif.Choose("swap", 2) == 1 {
		list = []RvInstruction{b.ins, a.ins}
	}
	ds := vParse([][]RvInstruction{list}, device)
	verif.Assert(len(ds) == 1, "one directive")
	d := ds[0]

	both := []*vChoice{&a, &b}
	excluded := false
	proto, port, dns, bypass := -1, -1, "", false
	var ip net.IP
	var delay time.Duration
	medium := -1
	for _, c := range both {
		if (c.devOnly && !device) || (c.ownOnly && device) {
			excluded = true
		}
		if c.proto >= 0 {
			proto = c.proto
		}
		if device && c.devPort >= 0 {
			port = c.devPort
		}
		if !device && c.ownPort >= 0 {
			port = c.ownPort
		}
		if c.dns != "" {
			dns = c.dns
		}
		if c.ip != nil {
			ip = c.ip
		}
		if c.bypass {
			bypass = true
		}
		if c.hasDelay {
			delay = time.Duration(c.delay) * time.Second
		}
		if c.medium >= 0 {
			medium = c.medium
		}
	}
	if excluded {
		verif.Assert(len(d.URLs) == 0, "directive marked for the other role contributes no addresses")
		verif.Assert(!d.Bypass && d.Delay == 0 && d.EthIface == nil && d.WlanIface == nil, "directive marked for the other role contributes the zero directive")
		verif.Reached("excluded")
		return
	}
	scheme, defPort := vRefScheme(proto)
	wantPort := defPort
	if port >= 0 {
		wantPort = strconv.Itoa(port)
	}
	nURL := 0
	if dns != "" {
		nURL++
	}
	if ip != nil {
		nURL++
	}
	verif.Assert(len(d.URLs) == nURL, "one URL per DNS name and per IP address")
	if dns != "" {
		host := dns
		if wantPort != "" {
			host = net.JoinHostPort(dns, wantPort)
		}
		verif.Assert(verif.StrEq(d.URLs[0].Scheme, scheme), "scheme follows the protocol table (default tls)")
		verif.Assert(verif.StrEq(d.URLs[0].Host, host), "DNS host with role port, else the protocol's default port")
	}
	if ip != nil {
		u := d.URLs[nURL-1]
		host := ip.String()
		if wantPort != "" {
			host = net.JoinHostPort(host, wantPort)
		}
		verif.Assert(verif.StrEq(u.Scheme, scheme), "scheme follows the protocol table for the IP URL")
		verif.Assert(verif.StrEq(u.Host, host), "IP host with role port, else the protocol's default port")
	}
	verif.Assert(d.Bypass == bypass, "bypass set exactly when the bypass instruction is present")
	verif.Assert(d.Delay == delay, "delay is the instruction's seconds")
	switch {
	case medium < 0:
		verif.Assert(d.EthIface == nil && d.WlanIface == nil, "no medium instruction => no interface selection")
	case medium < 10:
		verif.Assert(d.EthIface != nil && int(*d.EthIface) == medium && d.WlanIface == nil, "medium 0..9 selects that wired interface")
	case medium < 20:
		verif.Assert(d.WlanIface != nil && int(*d.WlanIface) == medium-10 && d.EthIface == nil, "medium 10..19 selects wireless interface medium-10")
	case medium == 20:
		verif.Assert(d.EthIface != nil && *d.EthIface == 20 && d.WlanIface == nil, "medium 20 = all wired")
	case medium == 21:
		verif.Assert(d.WlanIface != nil && *d.WlanIface == 21 && d.EthIface == nil, "medium 21 = all wireless")
	default:
		verif.Assert(d.EthIface == nil && d.WlanIface == nil, "other media select nothing")
	}
	verif.Reached("end")
}

// (c) malformed values are ignored: a well-formed directive plus one instruction
// whose value is arbitrary bytes that do not decode to the instruction's type
// yields the same addressing as without it.
func VerifC20_MalformedIgnored() {
	verif.NoPanic()
	verif.Bound("C20 malformed", "DNS 'a' + one extra instruction (protocol / role port / IP / delay / medium) whose value is any 0..2 bytes")
	device := verif.Choose("device", 2) == 1
	base := RvInstruction{Variable: RVDns, Value: vEnc("a")}
	vars := []RvVar{RVProtocol, RVDevPort, RVOwnerPort, RVDelaysec, RVMedium}
	v := vars[verif.Choose("which", len(vars))]
	val := verif.Bytes("val", verif.Choose("nval", 3))
	extra := RvInstruction{Variable: v, Value: val}
	d := vParse([][]RvInstruction{{base, extra}}, device)[0]
	// does the value decode to the instruction's type?
	var okDecode bool
	switch v {
	case RVProtocol, RVMedium:
		var x uint8
		okDecode = cbor.Unmarshal(val, &x) == nil
	case RVDevPort, RVOwnerPort:
		var x uint16
		okDecode = cbor.Unmarshal(val, &x) == nil
	case RVDelaysec:
		var x time.Duration
		okDecode = cbor.Unmarshal(val, &x) == nil
	}
	if !okDecode {
		verif.Assert(len(d.URLs) == 1 && verif.StrEq(d.URLs[0].Scheme, "tls") && verif.StrEq(d.URLs[0].Host, "a"), "malformed value leaves scheme/host/port at their defaults")
		verif.Assert(d.Delay == 0 && d.EthIface == nil && d.WlanIface == nil, "malformed value sets nothing")
	}
	verif.Reached("end")
}

// (c) order independence for three distinct instructions: every permutation
// yields a DeepEqual directive (thorough tier).
func VerifC20_OrderIndependent3() {
	verif.NoPanic()
	verif.Bound("C20c", "3 instructions of distinct kinds (10 kinds), all 6 orders compared pairwise against the first")
	device := verif.Choose("device", 2) == 1
	k1 := verif.Choose("k1", vKinds)
	k2 := verif.Choose("k2", vKinds)
	k3 := verif.Choose("k3", vKinds)
	verif.Assume(k1 < k2 && k2 < k3)
	var c [3]vChoice
	vPick(k1, &c[0])
	vPick(k2, &c[1])
	vPick(k3, &c[2])
	perms := [][3]int{{0, 2, 1}, {1, 0, 2}, {1, 2, 0}, {2, 0, 1}, {2, 1, 0}}
	base := vParse([][]RvInstruction{{c[0].ins, c[1].ins, c[2].ins}}, device)
	p := perms[verif.Choose("perm", len(perms))]
	other := vParse([][]RvInstruction{{c[p[0]].ins, c[p[1]].ins, c[p[2]].ins}}, device)
	verif.Assert(verif.DeepEq(base, other), "directive is independent of the order of distinct instructions")
	verif.Reached("end")
}

// interpreting is a pure function of the instruction list: parsing the same list
// again (any role order) gives the same result and leaves the instructions untouched.
func VerifC20_Repeatable() {
	verif.NoPanic()
	verif.Bound("C20 repeat", "2 instructions: a DNS name (1..2 symbolic bytes) and an external-RV instruction [mechanism (1..3 symbolic bytes), 0..2 arguments]; parsed as device, owner, device")
	s := verif.String("dns", 1+verif.Choose("dnslen", 2))
	mech := verif.String("mech", 1+verif.Choose("mechlen", 3))
	ext := []any{mech}
	for i, n := 0, verif.Choose("nargs", 3); i < n; i++ {
		ext = append(ext, int64(verif.U8("arg")))
	}
	info := [][]RvInstruction{{
		{Variable: RVDns, Value: vEnc(s)},
		{Variable: RVExtRV, Value: vEnc(ext)},
	}}
	if verif.Choose("extfirst", 2) == 1 {
		info[0][0], info[0][1] = info[0][1], info[0][0]
	}
	before := [][]byte{append([]byte{}, info[0][0].Value...), append([]byte{}, info[0][1].Value...)}
	d1 := ParseDeviceRvInfo(info)
	o1 := ParseOwnerRvInfo(info)
	d2 := ParseDeviceRvInfo(info)
	o2 := ParseOwnerRvInfo(info)
	verif.Assert(verif.BytesEq(info[0][0].Value, before[0]) && verif.BytesEq(info[0][1].Value, before[1]), "interpreting rendezvous info does not modify the instructions")
	verif.Assert(len(d1) == 1 && len(d2) == 1 && len(o1) == 1 && len(o2) == 1, "one directive per list")
	verif.Assert(verif.StrEq(d1[0].ExtMechanism, mech) && verif.StrEq(d2[0].ExtMechanism, mech) && verif.StrEq(o1[0].ExtMechanism, mech) && verif.StrEq(o2[0].ExtMechanism, mech), "the external-RV mechanism is the first array element, on every pass")
	verif.Assert(verif.BytesEq(d1[0].ExtArguments, d2[0].ExtArguments) && verif.BytesEq(o1[0].ExtArguments, o2[0].ExtArguments) && verif.BytesEq(d1[0].ExtArguments, o1[0].ExtArguments), "the external-RV arguments are the same on every pass")
	verif.Assert(len(d1[0].URLs) == len(d2[0].URLs) && len(o1[0].URLs) == len(o2[0].URLs), "the same addresses on every pass")
	verif.Reached("end")
}

// the two certificate-hash fields are independent of each other and of the order
// of their instructions; a malformed one leaves the other untouched
func VerifC20_CertHashes() {
	verif.NoPanic()
	verif.Bound("C20 cert hashes", "DNS 'a' + a server-certificate hash and a CA hash instruction (SHA-256 and SHA-384 ids, 2 symbolic value bytes each), in both orders; the second optionally malformed (wrong shape with a valid-looking algorithm id); both roles")
	device := verif.Bool("device")
	h1 := Hash{Algorithm: Sha256Hash, Value: verif.Bytes("h1", 2)}
	h2 := Hash{Algorithm: Sha384Hash, Value: verif.Bytes("h2", 2)}
	sv := RvInstruction{Variable: RVSvCertHash, Value: vEnc(h1)}
	ca := RvInstruction{Variable: RVClCertHash, Value: vEnc(h2)}
	malformed := verif.Choose("malformed", 3) // 0 none, 1 CA hash malformed, 2 server hash malformed
	switch malformed {
	case 1:
		ca.Value = vEnc([]any{int64(Sha384Hash), int64(7)})
	case 2:
		sv.Value = vEnc([]any{int64(Sha256Hash), int64(7)})
	}
	list := []RvInstruction{{Variable: RVDns, Value: vEnc("a")}, sv, ca}
	if verif.Choose("order", 2) == 1 {
		list[1], list[2] = list[2], list[1]
	}
	d := vParse([][]RvInstruction{list}, device)
	verif.Assert(len(d) == 1, "one directive")
	if malformed != 2 {
		verif.Assert(d[0].ServerCert != nil && d[0].ServerCert.Algorithm == Sha256Hash && verif.BytesEq(d[0].ServerCert.Value, h1.Value), "the server certificate hash is the one its instruction carries")
	} else {
		verif.Assert(d[0].ServerCert == nil, "a malformed server certificate hash is ignored")
	}
	if malformed != 1 {
		verif.Assert(d[0].ServerCA != nil && d[0].ServerCA.Algorithm == Sha384Hash && verif.BytesEq(d[0].ServerCA.Value, h2.Value), "the CA hash is the one its instruction carries")
	} else {
		verif.Assert(d[0].ServerCA == nil, "a malformed CA hash is ignored")
	}
	verif.Reached("end")
}

// role-specific ports: each role reads only its own port variable, else the protocol default
func VerifC20_RolePorts() {
	verif.NoPanic()
	verif.Bound("C20 ports", "DNS 'a', protocol HTTP or HTTPS, device port and/or owner port present (values from {1,8080,65535} / {2,8443,65534}), every order of the port instructions; both roles")
	device := verif.Bool("device")
	dp := []uint16{1, 8080, 65535}[verif.Choose("devport", 3)]
	op := []uint16{2, 8443, 65534}[verif.Choose("ownport", 3)]
	https := verif.Bool("https")
	proto := RVProtHTTP
	if https {
		proto = RVProtHTTPS
	}
	list := []RvInstruction{{Variable: RVDns, Value: vEnc("a")}, {Variable: RVProtocol, Value: vEnc(uint8(proto))}}
	hasD, hasO := verif.Bool("hasdev"), verif.Bool("hasown")
	ports := []RvInstruction{}
	if hasD {
		ports = append(ports, RvInstruction{Variable: RVDevPort, Value: vEnc(dp)})
	}
	if hasO {
		ports = append(ports, RvInstruction{Variable: RVOwnerPort, Value: vEnc(op)})
	}
	if len(ports) == 2 && verif.Bool("swap") {
		ports[0], ports[1] = ports[1], ports[0]
	}
	if verif.Bool("portsfirst") {
		list = append(ports, list...)
	} else {
		list = append(list, ports...)
	}
	d := vParse([][]RvInstruction{list}, device)
	verif.Assert(len(d) == 1 && len(d[0].URLs) == 1, "one URL")
	want := uint16(80)
	if https {
		want = 443
	}
	if device && hasD {
		want = dp
	}
	if !device && hasO {
		want = op
	}
	verif.Assert(d[0].URLs[0].Port() == strconv.Itoa(int(want)), "the port is the role's own port variable if present, else the protocol default - never the other role's")
	verif.Reached("end")
}
