//go:build verif

package serviceinfo

import (
	"errors"
	"io"

	"github.com/fido-device-onboard/go-fdo/internal/verif"
)

type vMsg struct {
	key string
	val []byte
}

// vPack mirrors the packing loop of TO2's exchangeServiceInfoRound.
func vPack(r *ChunkReader, mtu uint16) (chunks []*KV, more, eof bool, err error) {
	maxRead := mtu
	for {
		chunk, e := r.ReadChunk(maxRead)
		if errors.Is(e, io.EOF) {
			return chunks, false, true, nil
		}
		if errors.Is(e, ErrSizeTooSmall) {
			more = true
			if maxRead == mtu {
				more = false
			}
			return chunks, more, false, nil
		}
		if e != nil {
			return chunks, false, false, e
		}
		verif.Assert(chunk.Size() <= maxRead, "every emitted chunk fits the size budget it was given")
		maxRead -= chunk.Size()
		chunks = append(chunks, chunk)
	}
}

// (c) lossless, ordered, within the MTU: write messages, chunk at a given MTU
// into batches, reassemble, compare.
func VerifC15_ContentRoundTrip() {
	verif.NoPanic()
	verif.Bound("C15c", "1..2 (quick) / 1..3 (thorough) messages, key 'm:a'/'m:b'/'mod:c' (distinct consecutive keys), value of {1,2,3,9} (quick) / {1..6,9,20} (thorough) symbolic bytes (so that values both fit and overflow the room left in a message), MTU every value 12..40 (quick) / 10..64 (thorough); buffered pipes; producer runs to completion, then consumer (one schedule)")
	nmsg := 1 + verif.Choose("nmsg", 2+verif.Tier())
	keys := []string{"m:a", "m:b", "mod:c"}
	var msgs []vMsg
	for i := 0; i < nmsg; i++ {
		lens := []int{1, 2, 3, 9}
		if verif.Tier() > 0 {
			lens = []int{1, 2, 3, 4, 5, 6, 9, 20}
		}
		n := lens[verif.Choose("nval", len(lens))]
		msgs = append(msgs, vMsg{key: keys[i], val: verif.Bytes("val", n)})
	}
	lo, hi := 12, 40
	if verif.Tier() > 0 {
		lo, hi = 10, 64
	}
	mtu := uint16(lo + verif.Choose("mtu", hi-lo+1))

	cr, uw := NewChunkOutPipe(8)
	for _, m := range msgs {
		mod, name := m.key[:len(m.key)-2], m.key[len(m.key)-1:]
		verif.Assert(uw.NextServiceInfo(mod, name) == nil, "NextServiceInfo")
		_, err := uw.Write(m.val)
		verif.Assert(err == nil, "Write")
	}
	verif.Assert(uw.Close() == nil, "Close")

	ur, cw := NewChunkInPipe(8)
	rounds := 0
	// the consumer keeps every batch until the producer side is exhausted (a
	// returned chunk must stay valid across later ReadChunk calls), then reassembles
	var all []*KV
	for {
		chunks, more, eof, err := vPack(cr, mtu)
		verif.Assert(err == nil, "chunking never fails for keys that fit the MTU")
		var total uint16
		for _, c := range chunks {
			total += c.Size()
			all = append(all, c)
		}
		verif.Assert(total <= mtu, "a batch of chunks fits the MTU")
		if eof {
			break
		}
		if !more {
			// the device stops sending after a message without IsMoreServiceInfo: nothing may be left behind
			rest, _, eof2, err := vPack(cr, mtu)
			verif.Assert(err == nil && eof2 && len(rest) == 0, "a batch that does not announce more service info is the last one (nothing is left unsent)")
			break
		}
		rounds++
		verif.Assert(rounds < 40, "chunking makes progress")
		if len(chunks) == 0 && rounds > 30 {
			break
		}
	}
	for _, c := range all {
		verif.Assert(cw.WriteChunk(c) == nil, "WriteChunk")
	}
	verif.Assert(cw.Close() == nil, "ChunkWriter.Close")
	for i, m := range msgs {
		key, rd, ok := ur.NextServiceInfo()
		verif.Assert(ok, "every written message comes out")
		verif.Assert(key == m.key, "keys come out in order")
		got, err := io.ReadAll(rd)
		verif.Assert(err == nil, "value readable")
		verif.Assert(verif.BytesEq(got, m.val), "value bytes are exactly the written bytes")
		_ = i
	}
	_, _, ok := ur.NextServiceInfo()
	verif.Assert(!ok, "nothing is duplicated or invented")
	verif.Reached("end")
}

// KV.Size equals the real CBOR size of the pair; ArraySizeCBOR the size of the array.
func VerifC15_SizeArithmetic() {
	verif.NoPanic()
	verif.Bound("C15 sizes", "key length {0,1,23,24,255,256} x value length {0,1,23,24,255,256,300}")
	ls := []int{0, 1, 23, 24, 255, 256, 300}
	kl := ls[verif.Choose("kl", 6)]
	vl := ls[verif.Choose("vl", 7)]
	kv := &KV{Key: string(make([]byte, kl)), Val: make([]byte, vl)}
	head := func(n int) int {
		switch {
		case n < 24:
			return 1
		case n < 256:
			return 2
		}
		return 3
	}
	verif.Assert(int(kv.Size()) == 1+head(kl)+kl+head(vl)+vl, "KV.Size is the exact CBOR size of [key, value]")
	verif.Assert(ArraySizeCBOR([]*KV{kv, kv}) == int64(1+2*int(kv.Size())), "ArraySizeCBOR adds the array head")
	verif.Reached("end")
}

// (a) budget with a symbolic size: whatever the size, a returned chunk fits it.
func VerifC15_BudgetSymbolic() {
	verif.NoPanic()
	verif.Bound("C15a", "one message, key 'm:a' or a 30-byte key, 0..4, 30 or 300 value bytes available (so that chunks with 23/24 and 255/256 value bytes - the CBOR head-size boundaries - occur); size = any uint16, split by the code's own overhead branches; within each branch the buffer length is explored by classes (6 smallest and the largest feasible value)")
	cr, uw := NewChunkOutPipe(4)
	mod := "m"
	if verif.Choose("longkey", 2) == 1 {
		mod = "mmmmmmmmmmmmmmmmmmmmmmmmmmmm"
	}
	verif.Assert(uw.NextServiceInfo(mod, "a") == nil, "NextServiceInfo")
	n := []int{0, 1, 2, 3, 4, 30, 300}[verif.Choose("nval", 7)]
	if n > 0 {
		_, err := uw.Write(verif.Bytes("val", n))
		verif.Assert(err == nil, "Write")
	}
	verif.Assert(uw.Close() == nil, "Close")
	size := verif.U16("size")
	kv, err := cr.ReadChunk(size)
	if err == nil {
		verif.Assert(kv.Size() <= size, "a returned chunk fits the size it was given, for every size")
		verif.Assert(len(kv.Val) <= n, "a chunk carries only written bytes")
	}
	verif.Reached("end")
}

// an explicit yield (ForceNewMessage) ends the batch: what follows goes into the next
// one and is not lost - also when the message before the yield ends exactly at a
// batch boundary, and when the yield is the first thing written
func VerifC15_YieldStartsNewBatch() {
	verif.NoPanic()
	verif.Bound("C15 yield", "optional leading yield; message A (1..9 symbolic bytes), yield, message B (1..3 bytes); MTU every value 12..40 and 64 (so that A fits with room to spare, ends exactly at the batch boundary, or spans batches)")
	cr, uw := NewChunkOutPipe(8)
	a := verif.Bytes("a", 1+verif.Choose("na", 9))
	b := verif.Bytes("b", 1+verif.Choose("nb", 3))
	mtus := 30
	mi := verif.Choose("mtu", mtus)
	mtu := uint16(12 + mi)
	if mi == mtus-1 {
		mtu = 64
	}
	if verif.Choose("leadingyield", 2) == 1 {
		verif.Assert(uw.ForceNewMessage() == nil, "leading ForceNewMessage")
	}
	verif.Assert(uw.NextServiceInfo("m", "a") == nil, "NextServiceInfo a")
	_, err := uw.Write(a)
	verif.Assert(err == nil, "Write a")
	verif.Assert(uw.ForceNewMessage() == nil, "ForceNewMessage")
	verif.Assert(uw.NextServiceInfo("m", "b") == nil, "NextServiceInfo b")
	_, err = uw.Write(b)
	verif.Assert(err == nil, "Write b")
	verif.Assert(uw.Close() == nil, "Close")
	// the device's send loop: batches are sent while the previous one announced more
	var gotA, gotB []byte
	sawB := false
	for round := 0; ; round++ {
		verif.Assert(round < 30, "the exchange terminates")
		chunks, more, eof, err := vPack(cr, mtu)
		verif.Assert(err == nil, "batch")
		inBatchA, inBatchB := false, false
		for _, c := range chunks {
			if c.Key == "m:a" {
				verif.Assert(!sawB, "A comes before B")
				gotA = append(gotA, c.Val...)
				inBatchA = true
			} else {
				verif.Assert(c.Key == "m:b", "only the written keys come out")
				gotB = append(gotB, c.Val...)
				inBatchB, sawB = true, true
			}
		}
		verif.Assert(!(inBatchA && inBatchB), "what follows the yield is never in the same batch as what precedes it")
		if eof || !more {
			break
		}
	}
	verif.Assert(verif.BytesEq(gotA, a), "message A arrives complete")
	verif.Assert(verif.BytesEq(gotB, b), "message B, written after the yield, is sent (not left behind when the device stops after a batch without IsMoreServiceInfo)")
	verif.Reached("end")
}
