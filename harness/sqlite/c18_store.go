//go:build verif

package sqlite

import (
	"context"
	"crypto"
	"errors"
	"time"

	"github.com/fido-device-onboard/go-fdo"
	"github.com/fido-device-onboard/go-fdo/cbor"
	"github.com/fido-device-onboard/go-fdo/cose"
	"github.com/fido-device-onboard/go-fdo/internal/verif"
	"github.com/fido-device-onboard/go-fdo/protocol"
	"github.com/fido-device-onboard/go-fdo/serviceinfo"
)

func vNewDB() *DB { return &DB{} }

// (a) token check: a token is accepted only if it is session id || HMAC(secret, id);
// damaged, truncated and foreign tokens grant nothing and never crash the service.
func VerifC18_TokenCheck() {
	verif.NoPanic()
	verif.Expect("accepted")
	verif.Expect("refused")
	verif.Bound("C18a", "token of decoded length in {0,1,15,16,17,47,48,49,64} with arbitrary bytes; the store's HMAC secret arbitrary (64 bytes); base64 modelled as a bijection")
	vResetDB()
	secret := verif.Bytes("secret", 64)
	vDB.tables["secrets"] = []vRow{{"type": "hmac", "secret": secret}}
	n := []int{0, 1, 15, 16, 17, 47, 48, 49, 64}[verif.Choose("toklen", 9)]
	raw := verif.Bytes("token", n)
	db := vNewDB()
	ctx := db.TokenContext(context.Background(), string(raw))
	id, ok := db.sessionID(ctx)
	if !ok {
		verif.Reached("refused")
		return
	}
	verif.Reached("accepted")
	verif.Assert(n == 48, "an accepted token is a 16-byte session id followed by a 32-byte MAC")
	verif.Assert(verif.BytesEq(id, raw[:16]), "the session id is the token's first 16 bytes")
	verif.Assert(verif.BytesEq(raw[16:], verif.HmacOf(crypto.SHA256, secret, raw[:16])), "an accepted token carries HMAC-SHA256(store secret, session id)")
}

// (b) what is stored for a session is what is read for that session's token and
// only for it; invalidation removes it; a second server object on the same store
// continues the session.
func VerifC18_SessionStore() {
	verif.NoPanic()
	verif.Bound("C18b", "two sessions from NewToken; one state item per path out of {TO0 nonce, TO1 nonce, GUID, rendezvous info, ProveDevice nonce, SetupDevice nonce, MTU, replacement GUID, replacement HMAC (SHA-256/384 sizes), devmod + module list}; symbolic values; reads from the owning session, the other session, a token with one altered MAC byte, after re-creating the DB object, and after invalidation; relational model behind the SQL helpers")
	vResetDB()
	db := vNewDB()
	bg := context.Background()
	ta, err := db.NewToken(bg, protocol.TO2Protocol)
	verif.Assert(err == nil, "NewToken A")
	tb, err := db.NewToken(bg, protocol.TO2Protocol)
	verif.AssumeMsg(err == nil && ta != tb, "two random session ids differ (a collision, probability 2^-128, makes the second NewToken fail on the primary key)")
	ca, cb := db.TokenContext(bg, ta), db.TokenContext(bg, tb)
	forged := []byte(ta)
	forged[len(forged)-1] ^= 1 + verif.U8("macflip")%255
	cf := db.TokenContext(bg, string(forged))

	var n16 [16]byte
	copy(n16[:], verif.Bytes("v16", 16))
	item := verif.Choose("item", 10)
	// write in session A, then read through each context
	set := func(c context.Context) error {
		switch item {
		case 0:
			return db.SetTO0SignNonce(c, protocol.Nonce(n16))
		case 1:
			return db.SetTO1ProofNonce(c, protocol.Nonce(n16))
		case 2:
			return db.SetGUID(c, protocol.GUID(n16))
		case 3:
			return db.SetRvInfo(c, [][]protocol.RvInstruction{{{Variable: protocol.RVDns, Value: verif.Bytes("rv", 2)}}})
		case 4:
			return db.SetProveDeviceNonce(c, protocol.Nonce(n16))
		case 5:
			return db.SetSetupDeviceNonce(c, protocol.Nonce(n16))
		case 6:
			return db.SetMTU(c, verif.U16("mtu"))
		case 7:
			return db.SetReplacementGUID(c, protocol.GUID(n16))
		case 8:
			alg, l := protocol.HmacSha256Hash, 32
			if verif.Bool("hmac384") {
				alg, l = protocol.HmacSha384Hash, 48
			}
			return db.SetReplacementHmac(c, protocol.Hmac{Algorithm: alg, Value: verif.Bytes("hmacval", l)})
		}
		return db.SetDevmod(c, serviceinfo.Devmod{Os: "o", Arch: verif.String("arch", 1), Version: "v", Device: "d", FileSep: "/", Bin: "b"}, []string{"devmod", verif.String("mod", 1)}, verif.Bool("complete"))
	}
	type rd struct {
		val any
		err error
	}
	get := func(d *DB, c context.Context) rd {
		switch item {
		case 0:
			v, e := d.TO0SignNonce(c)
			return rd{v, e}
		case 1:
			v, e := d.TO1ProofNonce(c)
			return rd{v, e}
		case 2:
			v, e := d.GUID(c)
			return rd{v, e}
		case 3:
			v, e := d.RvInfo(c)
			return rd{v, e}
		case 4:
			v, e := d.ProveDeviceNonce(c)
			return rd{v, e}
		case 5:
			v, e := d.SetupDeviceNonce(c)
			return rd{v, e}
		case 6:
			v, e := d.MTU(c)
			return rd{v, e}
		case 7:
			v, e := d.ReplacementGUID(c)
			return rd{v, e}
		case 8:
			v, e := d.ReplacementHmac(c)
			return rd{v, e}
		}
		dm, mods, complete, e := d.Devmod(c)
		return rd{[]any{dm, mods, complete}, e}
	}
	verif.Assert(errors.Is(get(db, ca).err, fdo.ErrNotFound), "nothing is read before it was stored")
	verif.Assert(set(cf) != nil, "a token with an altered MAC cannot store session state")
	verif.Assert(set(ca) == nil, "the session's token stores the value")
	a1 := get(db, ca)
	verif.Assert(a1.err == nil, "the session's token reads the value back")
	// reference copy of what was written, re-derived by writing the same value into B and reading it
	verif.Assert(errors.Is(get(db, cb).err, fdo.ErrNotFound), "another session's token does not see the value")
	verif.Assert(get(db, cf).err != nil, "a token with an altered MAC reads nothing")
	// a fresh server object on the same database continues the session
	db2 := vNewDB()
	a2 := get(db2, db2.TokenContext(bg, ta))
	verif.Assert(a2.err == nil && verif.DeepEq(a1.val, a2.val), "a second server object on the same store reads the same value with the same token")
	a3 := get(db2, db2.TokenContext(bg, ta))
	verif.Assert(a3.err == nil && verif.DeepEq(a1.val, a3.val), "and keeps accepting the token")
	vCheckValue(item, a1.val, n16)
	// invalidation
	verif.Assert(db.InvalidateToken(ca) == nil, "the token can be invalidated")
	verif.Assert(get(db, ca).err != nil, "an invalidated token reads nothing")
	verif.Assert(set(ca) != nil, "an invalidated token stores nothing")
	verif.Assert(set(cb) == nil && get(db, cb).err == nil, "the other session is unaffected by the invalidation")
	verif.Reached("end")
}

func vCheckValue(item int, v any, n16 [16]byte) {
	switch item {
	case 0, 1, 4, 5:
		verif.Assert(v.(protocol.Nonce) == protocol.Nonce(n16), "the nonce read is the nonce stored")
	case 2, 7:
		verif.Assert(v.(protocol.GUID) == protocol.GUID(n16), "the GUID read is the GUID stored")
	}
}

// (c) voucher store: what was added is retrievable; after replacing a voucher the
// new one is retrievable and the old one is gone
func VerifC18_VoucherStore() {
	verif.NoPanic()
	verif.Bound("C18c", "one stored voucher (no entries, symbolic GUID and device info byte); replacement voucher whose GUID is another symbolic value (possibly the same); optionally the write of the replacement fails")
	vResetDB()
	db := vNewDB()
	bg := context.Background()
	mk := func(tag string) (*fdo.Voucher, protocol.GUID) {
		var g protocol.GUID
		copy(g[:], verif.Bytes("guid"+tag, 16))
		hdr := fdo.VoucherHeader{Version: 101, GUID: g, DeviceInfo: verif.String("info"+tag, 1),
			ManufacturerKey: protocol.PublicKey{Type: protocol.Secp256r1KeyType, Encoding: protocol.X509KeyEnc, Body: []byte{0x41, 0x00}}}
		return &fdo.Voucher{Version: 101, Header: *cbor.NewBstr(hdr), Hmac: protocol.Hmac{Algorithm: protocol.HmacSha256Hash, Value: verif.Bytes("mac"+tag, 32)}}, g
	}
	v1, g1 := mk("1")
	verif.Assert(db.AddVoucher(bg, v1) == nil, "AddVoucher")
	got, err := db.Voucher(bg, g1)
	verif.Assert(err == nil && got.Header.Val.GUID == g1 && verif.StrEq(got.Header.Val.DeviceInfo, v1.Header.Val.DeviceInfo) && verif.BytesEq(got.Hmac.Value, v1.Hmac.Value), "the stored voucher is retrievable unchanged")
	v2, g2 := mk("2")
	// optionally the write of the replacement fails (storage fault)
	if verif.Choose("insertfault", 2) == 1 {
		vInsertFaultAt = vInserts + 1
	}
	err = db.ReplaceVoucher(bg, g1, v2)
	vInsertFaultAt = 0
	if err == nil {
		got2, err := db.Voucher(bg, g2)
		verif.Assert(err == nil && verif.BytesEq(got2.Hmac.Value, v2.Hmac.Value), "after replacing a voucher the new one is retrievable")
		if g1 != g2 {
			_, err = db.Voucher(bg, g1)
			verif.Assert(errors.Is(err, fdo.ErrNotFound), "and the old one is gone")
		}
		verif.Reached("replaced")
	} else {
		got1, err := db.Voucher(bg, g1)
		verif.Assert(err == nil && verif.BytesEq(got1.Hmac.Value, v1.Hmac.Value), "a failed replacement leaves the old voucher retrievable")
		verif.Reached("refused")
	}
}

// (d) a registered rendezvous blob is returned unchanged until it expires and never afterwards
func VerifC18_RVBlobExpiry() {
	verif.NoPanic()
	verif.Expect("returned")
	verif.Expect("not found")
	verif.Bound("C18d", "one registration with expiry = any whole second within the modelled clock range; read at any later-or-equal clock instant; blob with one address and symbolic hash/signature")
	vResetDB()
	db := vNewDB()
	bg := context.Background()
	var g protocol.GUID
	copy(g[:], verif.Bytes("guid", 16))
	hdr := fdo.VoucherHeader{Version: 101, GUID: g, DeviceInfo: "d",
		ManufacturerKey: protocol.PublicKey{Type: protocol.Secp256r1KeyType, Encoding: protocol.X509KeyEnc, Body: []byte{0x41, 0x00}}}
	ov := &fdo.Voucher{Version: 101, Header: *cbor.NewBstr(hdr), Hmac: protocol.Hmac{Algorithm: protocol.HmacSha256Hash, Value: verif.Bytes("mac", 32)}}
	dns := "o"
	blob := &cose.Sign1[protocol.To1d, []byte]{Payload: cbor.NewByteWrap(protocol.To1d{
		RV:       []protocol.RvTO2Addr{{DNSAddress: &dns, Port: verif.U16("port"), TransportProtocol: protocol.HTTPTransport}},
		To0dHash: protocol.Hash{Algorithm: protocol.Sha256Hash, Value: verif.Bytes("to0dhash", 32)},
	})}
	blob.Protected, blob.Unprotected = cose.HeaderMap{cose.AlgLabel: int64(cose.ES256Alg)}, cose.HeaderMap{}
	blob.Signature = verif.Bytes("sig", 64)
	t0 := time.Now()
	ttl := verif.U32("ttl")
	exp := t0.Add(time.Duration(ttl) * time.Second)
	verif.Assert(db.SetRVBlob(bg, ov, blob, exp) == nil, "SetRVBlob")
	if verif.Choose("reregister", 2) == 1 {
		// the owner registers again with another address: the latest registration is the one served
		blob2 := *blob
		p2 := *blob.Payload
		p2.Val.RV = []protocol.RvTO2Addr{{DNSAddress: &dns, Port: verif.U16("port2"), TransportProtocol: protocol.HTTPTransport}}
		blob2.Payload = &p2
		blob2.Signature = verif.Bytes("sig2", 64)
		blob = &blob2
		verif.Assert(db.SetRVBlob(bg, ov, blob, exp) == nil, "SetRVBlob again")
	}
	// a second device's registration is independent
	var gB protocol.GUID
	copy(gB[:], verif.Bytes("guidB", 16))
	verif.AssumeMsg(gB != g, "two devices have different GUIDs")
	hdrB := hdr
	hdrB.GUID = gB
	ovB := &fdo.Voucher{Version: 101, Header: *cbor.NewBstr(hdrB), Hmac: ov.Hmac}
	farFuture := t0.Add(time.Duration(1<<31) * time.Second)
	verif.Assert(db.SetRVBlob(bg, ovB, blob, farFuture) == nil, "SetRVBlob for a second device")
	before := time.Now()
	got, gov, err := db.RVBlob(bg, g)
	after := time.Now() // the store read the clock between these two readings
	if err != nil {
		verif.Assert(errors.Is(err, fdo.ErrNotFound), "an expired registration is reported as not found")
		verif.Assert(after.After(exp), "a registration is reported missing only once it has expired")
		verif.Reached("not found")
		return
	}
	verif.Reached("returned")
	verif.Assert(!before.After(exp), "a blob is never returned after its expiry")
	verif.Assert(got.Payload.Val.RV[0].Port == blob.Payload.Val.RV[0].Port && verif.BytesEq(got.Payload.Val.To0dHash.Value, blob.Payload.Val.To0dHash.Value) && verif.BytesEq(got.Signature, blob.Signature), "the blob returned is the blob registered")
	verif.Assert(gov.Header.Val.GUID == g, "with its voucher")
}

// looking up one device's registration (expired or not) leaves other devices' registrations alone
func VerifC18_RVBlobIndependent() {
	verif.NoPanic()
	verif.Bound("C18d independent", "two registered devices; the first with any TTL, the second far in the future; the first is looked up (found or expired), then the second must still be found")
	vResetDB()
	db := vNewDB()
	bg := context.Background()
	mk := func(tag string) (*fdo.Voucher, protocol.GUID) {
		var g protocol.GUID
		copy(g[:], verif.Bytes("guid"+tag, 16))
		hdr := fdo.VoucherHeader{Version: 101, GUID: g, DeviceInfo: "d",
			ManufacturerKey: protocol.PublicKey{Type: protocol.Secp256r1KeyType, Encoding: protocol.X509KeyEnc, Body: []byte{0x41, 0x00}}}
		return &fdo.Voucher{Version: 101, Header: *cbor.NewBstr(hdr), Hmac: protocol.Hmac{Algorithm: protocol.HmacSha256Hash, Value: verif.Bytes("mac"+tag, 32)}}, g
	}
	ovA, gA := mk("A")
	ovB, gB := mk("B")
	verif.AssumeMsg(gA != gB, "two devices have different GUIDs")
	dns := "o"
	blob := &cose.Sign1[protocol.To1d, []byte]{Payload: cbor.NewByteWrap(protocol.To1d{
		RV:       []protocol.RvTO2Addr{{DNSAddress: &dns, Port: 8080, TransportProtocol: protocol.HTTPTransport}},
		To0dHash: protocol.Hash{Algorithm: protocol.Sha256Hash, Value: verif.Bytes("to0dhash", 32)},
	})}
	blob.Protected, blob.Unprotected = cose.HeaderMap{cose.AlgLabel: int64(cose.ES256Alg)}, cose.HeaderMap{}
	blob.Signature = verif.Bytes("sig", 64)
	t0 := time.Now()
	verif.Assert(db.SetRVBlob(bg, ovA, blob, t0.Add(time.Duration(verif.U16("ttlA"))*time.Second)) == nil, "SetRVBlob A")
	expB := t0.Add(time.Duration(1<<31) * time.Second)
	verif.Assert(db.SetRVBlob(bg, ovB, blob, expB) == nil, "SetRVBlob B")
	_, _, _ = db.RVBlob(bg, gA)
	_, gov, err := db.RVBlob(bg, gB)
	after := time.Now()
	verif.AssumeMsg(!after.After(expB), "the second registration has not expired by the time it is looked up")
	verif.Assert(err == nil && gov.Header.Val.GUID == gB, "another device's unexpired registration is still found after the first was looked up")
	verif.Reached("end")
}
