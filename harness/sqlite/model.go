//go:build verif

package sqlite

import (
	"bytes"
	"strings"
	"context"
	"database/sql"
	"errors"
	"fmt"

	"github.com/fido-device-onboard/go-fdo"
	"github.com/fido-device-onboard/go-fdo/internal/verif"
)

// A relational model standing in for SQLite behind the package's four SQL helper
// functions (insert, update, query, remove). It implements what the schema in Init
// declares and the statements those helpers generate: equality WHERE clauses,
// PRIMARY KEY / UNIQUE conflicts, INSERT OR IGNORE, ON CONFLICT DO UPDATE,
// DELETE ... RETURNING, foreign keys to sessions(id) with ON DELETE CASCADE.
// SQL itself (executed by a WASM build of SQLite) is outside the claim.

type vRow map[string]any

type vStore struct {
	tables map[string][]vRow
}

var vDB = &vStore{tables: map[string][]vRow{}}

func vResetDB() {
	vDB = &vStore{tables: map[string][]vRow{}}
	vInserts, vInsertFaultAt = 0, 0
}

var vUnique = map[string][]string{
	"sessions": {"id"}, "vouchers": {"guid"}, "rv_blobs": {"guid"},
	"incomplete_vouchers": {"session"}, "to0_sessions": {"session"}, "to1_sessions": {"session"},
	"to2_sessions": {"session"}, "replacement_vouchers": {"session"}, "key_exchanges": {"session"},
	"mfg_keys": {"type", "rsa_bits"}, "owner_keys": {"type", "rsa_bits"},
}

// tables whose session column references sessions(id) ON DELETE CASCADE
var vCascade = []string{"incomplete_vouchers", "to0_sessions", "to1_sessions", "to2_sessions", "replacement_vouchers", "key_exchanges"}

func vCopy(v any) any {
	if b, ok := v.([]byte); ok {
		if b == nil {
			return nil
		}
		return append([]byte{}, b...)
	}
	return v
}

func vEq(a, b any) bool {
	switch x := a.(type) {
	case []byte:
		y, ok := b.([]byte)
		return ok && bytes.Equal(x, y)
	case string:
		y, ok := b.(string)
		return ok && x == y
	case nil:
		return false // NULL equals nothing
	}
	return vInt(a) == vInt(b)
}

func vInt(v any) int64 {
	switch x := v.(type) {
	case int:
		return int64(x)
	case int64:
		return x
	case uint16:
		return int64(x)
	case uint8:
		return int64(x)
	case bool:
		if x {
			return 1
		}
		return 0
	}
	verif.Fail("model: unsupported integer column value")
	return 0
}

func vMatch(r vRow, where map[string]any) bool {
	for k, v := range where {
		if !vEq(r[k], v) {
			return false
		}
	}
	return true
}

func vConflict(table string, kvs map[string]any) int {
	keys := vUnique[table]
	if keys == nil {
		return -1
	}
	for i, r := range vDB.tables[table] {
		all := true
		for _, k := range keys {
			if !vEq(r[k], kvs[k]) {
				all = false
			}
		}
		if all {
			return i
		}
	}
	return -1
}

func vFKOK(table string, kvs map[string]any) bool {
	for _, t := range vCascade {
		if t == table {
			for _, s := range vDB.tables["sessions"] {
				if vEq(s["id"], kvs["session"]) {
					return true
				}
			}
			return false
		}
	}
	return true
}

// storage fault injection: the vInsertFaultAt-th insert (1-based) fails; 0 = never
var vInserts, vInsertFaultAt int

func VerifModel_insert(ctx context.Context, db any, table string, kvs map[string]any, upsertOnConflict []string) error {
	vInserts++
	if vInserts == vInsertFaultAt {
		return errors.New("model: injected storage fault on insert")
	}
	if !vFKOK(table, kvs) {
		return errors.New("model: FOREIGN KEY constraint failed")
	}
	if i := vConflict(table, kvs); i >= 0 {
		switch {
		case upsertOnConflict == nil:
			return fmt.Errorf("model: UNIQUE constraint failed: %s", table)
		case len(upsertOnConflict) == 0:
			return nil // INSERT OR IGNORE
		}
		for k, v := range kvs {
			vDB.tables[table][i][k] = vCopy(v)
		}
		return nil
	}
	row := vRow{}
	for k, v := range kvs {
		row[k] = vCopy(v)
	}
	vDB.tables[table] = append(vDB.tables[table], row)
	return nil
}

func VerifModel_update(ctx context.Context, db any, table string, kvs, where map[string]any) error {
	for _, r := range vDB.tables[table] {
		if vMatch(r, where) {
			for k, v := range kvs {
				r[k] = vCopy(v)
			}
		}
	}
	return nil
}

func vScan(dst any, v any) error {
	switch d := dst.(type) {
	case *[]byte:
		switch x := v.(type) {
		case nil:
			*d = nil
		case []byte:
			*d = append([]byte{}, x...)
		case string:
			*d = []byte(x)
		default:
			return errors.New("model: scan into []byte")
		}
	case *string:
		switch x := v.(type) {
		case string:
			*d = x
		case []byte:
			*d = string(x)
		case nil:
			return errors.New("sql: Scan error: converting NULL to string is unsupported")
		default:
			return errors.New("model: scan into string")
		}
	case *int:
		if v == nil {
			return errors.New("sql: Scan error: converting NULL to int is unsupported")
		}
		*d = int(vInt(v))
	case *int64:
		if v == nil {
			return errors.New("sql: Scan error: converting NULL to int64 is unsupported")
		}
		*d = vInt(v)
	case *bool:
		if v == nil {
			return errors.New("sql: Scan error: converting NULL to bool is unsupported")
		}
		*d = vInt(v) != 0
	case *sql.NullInt64:
		if v == nil {
			*d = sql.NullInt64{}
		} else {
			*d = sql.NullInt64{Int64: vInt(v), Valid: true}
		}
	case *sql.NullBool:
		if v == nil {
			*d = sql.NullBool{}
		} else {
			*d = sql.NullBool{Bool: vInt(v) != 0, Valid: true}
		}
	case *sql.Null[uint16]:
		if v == nil {
			*d = sql.Null[uint16]{}
		} else {
			n := vInt(v)
			if n < 0 || n > 65535 {
				return errors.New("sql: Scan error: value out of range for uint16")
			}
			*d = sql.Null[uint16]{V: uint16(n), Valid: true}
		}
	case *sql.Null[[]byte]:
		if v == nil {
			*d = sql.Null[[]byte]{}
		} else if b, ok := v.([]byte); ok {
			*d = sql.Null[[]byte]{V: append([]byte{}, b...), Valid: true}
		} else {
			return errors.New("model: scan into Null[[]byte]")
		}
	default:
		verif.Fail("model: unsupported scan destination type")
	}
	return nil
}

func VerifModel_query(ctx context.Context, db any, table string, columns []string, where map[string]any, into ...any) error {
	if len(columns) != len(into) {
		panic("programming error - query must have the same number of columns and values")
	}
	for _, r := range vDB.tables[table] {
		if !vMatch(r, where) {
			continue
		}
		for i, c := range columns {
			if err := vScan(into[i], r[c]); err != nil {
				return fmt.Errorf("error querying DB: %w", err)
			}
		}
		return nil
	}
	return fdo.ErrNotFound
}

func vDelete(table string, where map[string]any) []vRow {
	var kept, gone []vRow
	for _, r := range vDB.tables[table] {
		if vMatch(r, where) {
			gone = append(gone, r)
		} else {
			kept = append(kept, r)
		}
	}
	vDB.tables[table] = kept
	if table == "sessions" {
		for _, g := range gone {
			for _, t := range vCascade {
				vDelete(t, map[string]any{"session": g["id"]})
			}
		}
	}
	return gone
}

func VerifModel_remove(ctx context.Context, db any, table string, where map[string]any, returning map[string]any) error {
	gone := vDelete(table, where)
	if len(gone) == 0 {
		return fdo.ErrNotFound
	}
	for k, dst := range returning {
		if err := vScan(dst, gone[0][k]); err != nil {
			return err
		}
	}
	return nil
}

// Statements issued directly on *sql.DB (InvalidateToken's DELETE) are executed by a
// small interpreter for the form  DELETE FROM <table> WHERE <column> <op> ?  with
// op in {=, <, <=, >, >=}; anything else is reported as unsupported (inconclusive).
type vResult int64

func (r vResult) LastInsertId() (int64, error) { return 0, nil }
func (r vResult) RowsAffected() (int64, error) { return int64(r), nil }

func VerifModel_SQL_ExecContext(db *sql.DB, ctx context.Context, query string, args ...any) (sql.Result, error) {
	f := strings.Fields(query)
	if len(f) == 7 && strings.EqualFold(f[0], "DELETE") && strings.EqualFold(f[1], "FROM") && strings.EqualFold(f[3], "WHERE") && f[6] == "?" && len(args) == 1 {
		table, col, op := f[2], strings.Trim(f[4], "`"), f[5]
		var kept, gone []vRow
		for _, r := range vDB.tables[table] {
			match := false
			switch op {
			case "=":
				match = vEq(r[col], args[0])
			case "<", "<=", ">", ">=":
				if r[col] != nil {
					x, y := vInt(r[col]), vInt(args[0])
					match = (op == "<" && x < y) || (op == "<=" && x <= y) || (op == ">" && x > y) || (op == ">=" && x >= y)
				}
			default:
				verif.Fail("model: unsupported SQL comparison operator")
			}
			if match {
				gone = append(gone, r)
			} else {
				kept = append(kept, r)
			}
		}
		vDB.tables[table] = kept
		if table == "sessions" {
			for _, g := range gone {
				for _, t := range vCascade {
					vDelete(t, map[string]any{"session": g["id"]})
				}
			}
		}
		return vResult(len(gone)), nil
	}
	verif.Fail("model: unsupported direct SQL statement")
	return nil, errors.New("unsupported")
}
