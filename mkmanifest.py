#!/usr/bin/env python3
"""Regenerates MANIFEST.json from checks.json (claimed properties) and notes/*.json texts."""
import json
import os

V = os.path.dirname(os.path.abspath(__file__))
checks = json.load(open(os.path.join(V, "checks.json")))
props = [json.loads(l) for l in open(os.path.join(V, "properties.jsonl"))]

BASELINE = ("for m in . ./fsim ./sqlite ./tpm; do (cd /repo/$m && GOFLAGS=-mod=mod go test -json -vet=off -count=1 -timeout 25m ./...); done")

manifest = {
    "version": 1,
    "setup_cmd": "cd /verif && ./vcheck build",
    "hooks": {
        "guard": "verif",
        "enable": "no hook commits: harness files carry //go:build verif and are injected virtually (go/packages Overlay for the engine, go test -overlay -tags verif for native replays); /repo is never modified by a check",
        "baseline_off_cmd": BASELINE,
        "source_commits": [],
        "add_only": True,
    },
    "engines": [{
        "name": "symgo",
        "path": "/verif/engine",
        "serves_properties": sorted(checks.keys()),
        "kind_free_text": "own symbolic executor for Go: go/ssa (x/tools v0.50.0) interpreter with bit-vector scalars and concrete shapes, replay-from-root DFS over branch decisions, z3 4.8.12 over SMT-LIB2 (one incremental process), native reflect model, oracle models for cryptography; counterexamples re-executed concretely in the engine and, for kernel harnesses, natively via go test -overlay",
    }],
    "checks": [],
    "not_applicable": [],
    "notes": "Every check: ./vcheck <ID> --tier quick|thorough. Exit 0 held / 1 VIOLATION (replayed) / 2 inconclusive (never a VIOLATION line). Known findings: KNOWN_FINDINGS.json. See DESIGN.md.",
}

for p in props:
    pid = p["id"]
    if pid in checks:
        c = checks[pid]
        manifest["checks"].append({
            "property_id": pid,
            "quick_cmd": "./vcheck %s --tier quick" % pid,
            "thorough_cmd": "./vcheck %s --tier thorough" % pid,
            "evidence_file": "/verif/evidence/%s.json" % pid,
            "replay_cmd_template": "./vcheck replay {path}",
            "engine": "symgo",
            "level_claimed": {
                "category": "model_checking",
                "text": c.get("level_text", "Bounded symbolic execution of the real functions (from go/ssa) with an SMT solver deciding every assertion for all inputs within the stated bounds; counterexamples are replayed before being reported."),
                "design_ref": "DESIGN.md section 3, " + pid,
            },
            "level_note": c.get("level_note", "Bounded; trusted: symgo interpreter and models, z3."),
            "technique": c.get("technique", "symbolic execution of go/ssa + SMT (z3), bounded"),
        })
    else:
        na = json.load(open(os.path.join(V, "not_applicable.json")))
        manifest["not_applicable"].append({"property_id": pid, "reason": na.get(pid, "no solver-based check has been built for this property yet")})

json.dump(manifest, open(os.path.join(V, "MANIFEST.json"), "w"), indent=1)
print("claimed:", [c["property_id"] for c in manifest["checks"]])
print("not applicable:", [c["property_id"] for c in manifest["not_applicable"]])
