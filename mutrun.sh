#!/bin/bash
# mutrun.sh <prop> <patch.diff> [tier] : run a property's check against a scratch worktree of /repo with the patch applied.
# Nothing in /repo or /verif/evidence is touched. Prints the tail of the check's output and its exit status.
set -u
prop=$1; patch=$(readlink -f "$2"); tier=${3:-quick}
wt=$(mktemp -d /tmp/mutrun_XXXXXX)
git -C /repo worktree add -q --detach "$wt/wt" HEAD || exit 9
if ! git -C "$wt/wt" apply "$patch"; then echo "PATCH DOES NOT APPLY"; git -C /repo worktree remove --force "$wt/wt"; rm -rf "$wt"; exit 9; fi
# run from a snapshot of /verif so that edits made there meanwhile do not disturb the run
rsync -a --exclude .git --exclude evidence --exclude seeded /verif/ "$wt/verif/"
VERIF_REPO="$wt/wt" VERIF_OUT="$wt/out" "$wt/verif/vcheck" "$prop" --tier "$tier" > "$wt/log" 2>&1
rc=$?
grep -E "VIOLATION|KNOWN-FINDING|INCONCLUSIVE|^OK|harness=" "$wt/log" | cut -c1-400 | head -40
echo "mutrun: prop=$prop patch=$patch rc=$rc"
git -C /repo worktree remove --force "$wt/wt"; rm -rf "$wt"
exit $rc
