#!/bin/bash
# seedcheck.sh <dir with patch.diff demo_test.go DEST> <outfile>: confirm a seeded change in a scratch worktree:
# demo passes on the unchanged tree, fails with the patch, whole existing suite passes with the patch.
set -u
d=$(readlink -f "$1"); out=$2
export GOFLAGS=-mod=mod GOPROXY=off
wt=$(mktemp -d /tmp/seedchk_XXXXXX)
git -C /repo worktree add -q --detach "$wt/wt" HEAD || exit 9
dest=$(cat "$d/DEST" | tr -d '[:space:]')
cp "$d/demo_test.go" "$wt/wt/$dest"
pkgdir=$(dirname "$dest"); moddir=.
case "$dest" in fsim/*) moddir=fsim; pkgdir=${pkgdir#fsim};; sqlite/*) moddir=sqlite; pkgdir=${pkgdir#sqlite};; tpm/*) moddir=tpm; pkgdir=${pkgdir#tpm};; esac
pkgdir=${pkgdir#/}; [ -z "$pkgdir" ] && pkgdir=.
rundemo() { (cd "$wt/wt/$moddir" && timeout 900 go test -vet=off -count=1 -run 'TestDemo' "./$pkgdir" > "$wt/demo.log" 2>&1; echo $?); }
clean=$(rundemo)
applied=yes; git -C "$wt/wt" apply "$d/patch.diff" || applied=no
mut=$(rundemo); tail -c 600 "$wt/demo.log" > "$wt/demo_mut_tail.txt"
rm "$wt/wt/$dest"
suite=0
for m in . ./fsim ./sqlite ./tpm; do (cd "$wt/wt/$m" && timeout 1500 go test -vet=off -count=1 -timeout 25m ./... > "$wt/suite.log" 2>&1) || suite=1; done
python3 - "$out" "$clean" "$mut" "$suite" "$applied" "$wt/demo_mut_tail.txt" "$dest" <<'PY'
import json,sys
out,clean,mut,suite,applied,tail,dest=sys.argv[1:]
json.dump({"demo_dest":dest,"patch_applies":applied=="yes","demo_exit_unchanged_tree":int(clean),"demo_exit_with_change":int(mut),"existing_suite_exit_with_change":int(suite),"demo_output_tail_with_change":open(tail,errors='replace').read()},open(out,'w'),indent=1)
PY
git -C /repo worktree remove --force "$wt/wt"; rm -rf "$wt"
